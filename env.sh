# sourced by every script: offline Go environment for the harness
export GOFLAGS=-mod=mod GOPROXY=off GOSUMDB=off GOTOOLCHAIN=local
export VERIF_GO=${VERIF_GO:-/opt/veriftools/go1.26.8/bin/go}

// Code generated from the exported API of package net (go1.26.8). DO NOT EDIT.
// Every exported identifier of net is re-exported so that a file whose import
// "net" is replaced by this package keeps compiling; the identifiers that
// touch the operating system are overridden in vnet.go.

package vnet

import "net"

type Addr = net.Addr
type AddrError = net.AddrError
type Buffers = net.Buffers
var CIDRMask = net.CIDRMask
type Conn = net.Conn
type DNSConfigError = net.DNSConfigError
type DNSError = net.DNSError
var DialIP = net.DialIP
var DialUnix = net.DialUnix
var ErrClosed = net.ErrClosed
var ErrWriteToConnected = net.ErrWriteToConnected
type Error = net.Error
var FileConn = net.FileConn
var FileListener = net.FileListener
var FilePacketConn = net.FilePacketConn
const FlagBroadcast = net.FlagBroadcast
const FlagLoopback = net.FlagLoopback
const FlagMulticast = net.FlagMulticast
const FlagPointToPoint = net.FlagPointToPoint
const FlagRunning = net.FlagRunning
const FlagUp = net.FlagUp
type Flags = net.Flags
type HardwareAddr = net.HardwareAddr
type IP = net.IP
type IPAddr = net.IPAddr
type IPConn = net.IPConn
type IPMask = net.IPMask
type IPNet = net.IPNet
var IPv4 = net.IPv4
var IPv4Mask = net.IPv4Mask
var IPv4allrouter = net.IPv4allrouter
var IPv4allsys = net.IPv4allsys
var IPv4bcast = net.IPv4bcast
const IPv4len = net.IPv4len
var IPv4zero = net.IPv4zero
var IPv6interfacelocalallnodes = net.IPv6interfacelocalallnodes
const IPv6len = net.IPv6len
var IPv6linklocalallnodes = net.IPv6linklocalallnodes
var IPv6linklocalallrouters = net.IPv6linklocalallrouters
var IPv6loopback = net.IPv6loopback
var IPv6unspecified = net.IPv6unspecified
var IPv6zero = net.IPv6zero
type Interface = net.Interface
var InterfaceAddrs = net.InterfaceAddrs
var InterfaceByIndex = net.InterfaceByIndex
var InterfaceByName = net.InterfaceByName
var Interfaces = net.Interfaces
type InvalidAddrError = net.InvalidAddrError
var JoinHostPort = net.JoinHostPort
type KeepAliveConfig = net.KeepAliveConfig
var ListenIP = net.ListenIP
var ListenMulticastUDP = net.ListenMulticastUDP
var ListenUnix = net.ListenUnix
var ListenUnixgram = net.ListenUnixgram
type Listener = net.Listener
var LookupAddr = net.LookupAddr
var LookupCNAME = net.LookupCNAME
var LookupMX = net.LookupMX
var LookupNS = net.LookupNS
var LookupPort = net.LookupPort
var LookupSRV = net.LookupSRV
var LookupTXT = net.LookupTXT
type MX = net.MX
type NS = net.NS
type OpError = net.OpError
type PacketConn = net.PacketConn
var ParseCIDR = net.ParseCIDR
type ParseError = net.ParseError
var ParseIP = net.ParseIP
var ParseMAC = net.ParseMAC
var Pipe = net.Pipe
var ResolveIPAddr = net.ResolveIPAddr
var ResolveTCPAddr = net.ResolveTCPAddr
var ResolveUDPAddr = net.ResolveUDPAddr
var ResolveUnixAddr = net.ResolveUnixAddr
type Resolver = net.Resolver
type SRV = net.SRV
var SplitHostPort = net.SplitHostPort
type TCPAddr = net.TCPAddr
var TCPAddrFromAddrPort = net.TCPAddrFromAddrPort
type TCPConn = net.TCPConn
type TCPListener = net.TCPListener
type UDPAddr = net.UDPAddr
var UDPAddrFromAddrPort = net.UDPAddrFromAddrPort
type UnixAddr = net.UnixAddr
type UnixConn = net.UnixConn
type UnixListener = net.UnixListener
type UnknownNetworkError = net.UnknownNetworkError

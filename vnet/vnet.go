// Package vnet stands in for package net inside pkg/socks5 during simulation.
// The check builds with a `go test -overlay` in which every non-test file of
// /repo/pkg/socks5 has its import "net" replaced by this package (nothing in
// /repo changes). All exported identifiers of net are re-exported
// (aliases_gen.go); the ones that reach the operating system — Dialer, Dial,
// Listen, ListenUDP, DialUDP, UDPConn — are routed to a simulated Host.
package vnet

import (
	"context"
	"fmt"
	"net"
	"os"
	"runtime"
	"strings"
	"syscall"
	"time"
)

// Host is the operating system of one simulated machine.
type Host interface {
	DialContext(ctx context.Context, network, address string) (net.Conn, error)
	Listen(network, address string) (net.Listener, error)
	// ListenUDP binds a datagram socket; port 0 means any free port.
	ListenUDP(network string, laddr *net.UDPAddr) (net.PacketConn, error)
}

// The scenario installs the machines that run pkg/socks5 code.
var (
	ServerHost Host // the machine running the proxy server (egress side)
	ClientHost Host // the machine running the client daemon (ingress side)
)

// host picks the machine on whose behalf pkg/socks5 is calling: frames of the
// client daemon's code path select the client machine, everything else the
// proxy server.
func host() Host {
	if ClientHost != nil {
		var pcs [24]uintptr
		n := runtime.Callers(3, pcs[:])
		frames := runtime.CallersFrames(pcs[:n])
		for {
			f, more := frames.Next()
			if strings.Contains(f.Function, "socks5.(*Server).clientServeConn") || strings.Contains(f.Function, "socks5.(*ClientDialer)") || strings.Contains(f.Function, "socks5.(*Client).") {
				return ClientHost
			}
			if !more {
				break
			}
		}
	}
	if ServerHost == nil {
		panic("vnet: no simulated host installed")
	}
	return ServerHost
}

// Dialer mirrors net.Dialer. Only the behaviour pkg/socks5 relies on is
// simulated; the fields exist so that composite literals keep compiling.
type Dialer struct {
	Timeout       time.Duration
	Deadline      time.Time
	LocalAddr     net.Addr
	DualStack     bool
	FallbackDelay time.Duration
	KeepAlive     time.Duration
	Resolver      *net.Resolver
	Cancel        <-chan struct{}
	Control       func(network, address string, c syscall.RawConn) error
}

func (d *Dialer) DialContext(ctx context.Context, network, address string) (net.Conn, error) {
	if d != nil && d.Timeout > 0 {
		var cancel context.CancelFunc
		ctx, cancel = context.WithTimeout(ctx, d.Timeout)
		defer cancel()
	}
	return host().DialContext(ctx, network, address)
}

func (d *Dialer) Dial(network, address string) (net.Conn, error) {
	return d.DialContext(context.Background(), network, address)
}

func Dial(network, address string) (net.Conn, error) {
	return host().DialContext(context.Background(), network, address)
}

func DialTimeout(network, address string, timeout time.Duration) (net.Conn, error) {
	d := Dialer{Timeout: timeout}
	return d.Dial(network, address)
}

func Listen(network, address string) (net.Listener, error) {
	return host().Listen(network, address)
}

// UDPConn mirrors the part of *net.UDPConn that pkg/socks5 uses.
type UDPConn struct {
	pc     net.PacketConn
	remote *net.UDPAddr
}

func ListenUDP(network string, laddr *net.UDPAddr) (*UDPConn, error) {
	pc, err := host().ListenUDP(network, laddr)
	if err != nil {
		return nil, err
	}
	return &UDPConn{pc: pc}, nil
}

func DialUDP(network string, laddr, raddr *net.UDPAddr) (*UDPConn, error) {
	pc, err := host().ListenUDP(network, laddr)
	if err != nil {
		return nil, err
	}
	return &UDPConn{pc: pc, remote: raddr}, nil
}

func (c *UDPConn) ReadFromUDP(b []byte) (int, *net.UDPAddr, error) {
	n, addr, err := c.pc.ReadFrom(b)
	if err != nil {
		return n, nil, err
	}
	ua, _ := addr.(*net.UDPAddr)
	return n, ua, nil
}

func (c *UDPConn) ReadFrom(b []byte) (int, net.Addr, error) { return c.pc.ReadFrom(b) }

func (c *UDPConn) WriteToUDP(b []byte, addr *net.UDPAddr) (int, error) {
	if addr == nil {
		return 0, &net.OpError{Op: "write", Net: "udp", Err: fmt.Errorf("missing address")}
	}
	return c.pc.WriteTo(b, addr)
}

func (c *UDPConn) WriteTo(b []byte, addr net.Addr) (int, error) {
	if addr == nil {
		return 0, &net.OpError{Op: "write", Net: "udp", Err: fmt.Errorf("missing address")}
	}
	return c.pc.WriteTo(b, addr)
}

func (c *UDPConn) Read(b []byte) (int, error) {
	n, _, err := c.pc.ReadFrom(b)
	return n, err
}

func (c *UDPConn) Write(b []byte) (int, error) {
	if c.remote == nil {
		return 0, &net.OpError{Op: "write", Net: "udp", Err: syscall.EDESTADDRREQ}
	}
	return c.pc.WriteTo(b, c.remote)
}

func (c *UDPConn) Close() error                       { return c.pc.Close() }
func (c *UDPConn) LocalAddr() net.Addr                { return c.pc.LocalAddr() }
func (c *UDPConn) SetDeadline(t time.Time) error      { return c.pc.SetDeadline(t) }
func (c *UDPConn) SetReadDeadline(t time.Time) error  { return c.pc.SetReadDeadline(t) }
func (c *UDPConn) SetWriteDeadline(t time.Time) error { return c.pc.SetWriteDeadline(t) }
func (c *UDPConn) SetReadBuffer(int) error            { return nil }
func (c *UDPConn) SetWriteBuffer(int) error           { return nil }
func (c *UDPConn) File() (*os.File, error)            { return nil, syscall.ENOTSUP }
func (c *UDPConn) RemoteAddr() net.Addr {
	if c.remote == nil {
		return nil
	}
	return c.remote
}

var _ net.Conn = (*UDPConn)(nil)
var _ net.PacketConn = (*UDPConn)(nil)

// ListenConfig / ListenPacket: not used by pkg/socks5 today; provided so that a
// new use still compiles and goes through the simulated host.
type ListenConfig struct {
	Control   func(network, address string, c syscall.RawConn) error
	KeepAlive time.Duration
}

func (lc *ListenConfig) Listen(ctx context.Context, network, address string) (net.Listener, error) {
	return host().Listen(network, address)
}

func (lc *ListenConfig) ListenPacket(ctx context.Context, network, address string) (net.PacketConn, error) {
	return ListenPacket(network, address)
}

func ListenPacket(network, address string) (net.PacketConn, error) {
	ua, err := net.ResolveUDPAddr("udp", address)
	if err != nil {
		return nil, err
	}
	return host().ListenUDP(network, ua)
}

func ListenTCP(network string, laddr *net.TCPAddr) (net.Listener, error) {
	return host().Listen(network, laddr.String())
}

func DialTCP(network string, laddr, raddr *net.TCPAddr) (net.Conn, error) {
	return host().DialContext(context.Background(), network, raddr.String())
}

// Name resolution through the package-level helpers is refused: pkg/socks5
// resolves names through its configured apicommon.DNSResolver.
var DefaultResolver = &net.Resolver{PreferGo: true, Dial: func(ctx context.Context, network, address string) (net.Conn, error) {
	return nil, fmt.Errorf("vnet: no DNS in simulation")
}}

func LookupIP(host string) ([]net.IP, error) {
	return nil, &net.DNSError{Err: "vnet: no DNS in simulation", Name: host}
}
func LookupHost(host string) ([]string, error) {
	return nil, &net.DNSError{Err: "vnet: no DNS in simulation", Name: host}
}

// Package spec defines the JSON contract between the driver (cmd/vsim) and a
// simulated run (package sim, one fresh OS process per run). A RunSpec is a
// complete, explicit description of one execution: world, application
// operations, fault plan and seeds. It is also the replay file body.
package spec

import "encoding/json"

type User struct {
	Name          string  `json:"name"`
	Password      string  `json:"password"`
	AllowPrivate  bool    `json:"allowPrivate,omitempty"`
	AllowLoopback bool    `json:"allowLoopback,omitempty"`
	Quotas        []Quota `json:"quotas,omitempty"`
}

type Quota struct {
	Days      int `json:"days"`
	Megabytes int `json:"megabytes"`
}

// Pattern mirrors appctlpb.TrafficPattern with every field optional.
type Pattern struct {
	Seed           *int32   `json:"seed,omitempty"`
	UnlockAll      *bool    `json:"unlockAll,omitempty"`
	FragEnable     *bool    `json:"fragEnable,omitempty"`
	FragMaxSleepMs *int32   `json:"fragMaxSleepMs,omitempty"`
	NonceType      *int32   `json:"nonceType,omitempty"`
	NonceApplyAll  *bool    `json:"nonceApplyAll,omitempty"`
	NonceMinLen    *int32   `json:"nonceMinLen,omitempty"`
	NonceMaxLen    *int32   `json:"nonceMaxLen,omitempty"`
	NonceHex       []string `json:"nonceHex,omitempty"`
	PadMid         *int32   `json:"padMid,omitempty"`
	PadEnd         *int32   `json:"padEnd,omitempty"`
	LEMode         *int32   `json:"leMode,omitempty"`
	LERot          *int32   `json:"leRot,omitempty"`
}

type Server struct {
	Users         []User   `json:"users"`
	MTU           int      `json:"mtu,omitempty"`
	Pattern       *Pattern `json:"pattern,omitempty"`
	HintMandatory bool     `json:"hintMandatory,omitempty"`
	IP            string   `json:"ip"`
	TCPPort       int      `json:"tcpPort,omitempty"`
	UDPPort       int      `json:"udpPort,omitempty"`
	Acceptors     int      `json:"acceptors,omitempty"` // concurrent Server.Accept callers in the server application (default 1)
	ExtraTCPPorts []int    `json:"extraTcpPorts,omitempty"` // further TCP ports the server listens on (a port range / several bindings)
	ExtraUDPPorts []int    `json:"extraUdpPorts,omitempty"`
	NoAccept      bool     `json:"noAccept,omitempty"` // the server application never calls Accept (its backlog fills up)
	// RawMux: the applications take proxy connections straight from the session multiplexers
	// (protocol.Mux DialContext/Accept), as mieru's own client and server programs do, instead
	// of through apis/client and apis/server. No SOCKS request precedes the data: the
	// application's first Write is the session's first Write.
	RawMux bool `json:"rawMux,omitempty"`
}

// Script is what one application end does on one connection.
type Script struct {
	Writes    []int   `json:"writes,omitempty"`    // sizes of successive Write calls
	GapsUs    []int64 `json:"gapsUs,omitempty"`    // sleep before write i (cycled; default 1)
	ReadBufs  []int   `json:"readBufs,omitempty"`  // buffer sizes of successive Read calls (cycled; default 32768)
	ReadGapUs int64   `json:"readGapUs,omitempty"` // think time after each Read (>=1)
	StopRead  int64   `json:"stopRead,omitempty"`  // >0: stop reading after this many bytes (slow/stuck reader)
	// ReadDelayUs: the reader makes its first Read only after this long (a slow consumer: the
	// peer's writes pile up in every queue on the way, then everything must still arrive)
	ReadDelayUs int64 `json:"readDelayUs,omitempty"`
}

type Session struct {
	ID      int    `json:"id"`
	StartUs int64  `json:"startUs"`
	C2S     Script `json:"c2s"`
	S2C     Script `json:"s2c"`
	// Close protocol:
	//  "barrier":  wait until both readers have read everything, then Closer closes, peer reads to EOF and closes.
	//  "afterwrite": Closer closes CloseDelayUs after its last write returned; peer reads until EOF/error (C03).
	//  "none": nobody closes; the run ends by client/server stop.
	CloseMode    string `json:"closeMode"`
	Closer       string `json:"closer"` // "client" | "server"
	CloseDelayUs int64  `json:"closeDelayUs,omitempty"`
	UDPAssoc     bool   `json:"udpAssoc,omitempty"`
}

type Client struct {
	IP        string    `json:"ip"`
	User      int       `json:"user"` // index into Server.Users
	Transport string    `json:"transport"`
	MTU       int       `json:"mtu,omitempty"`
	Pattern   *Pattern  `json:"pattern,omitempty"`
	Multiplex int       `json:"multiplex"` // 0 off,1 low,2 middle,3 high
	NoWait    bool      `json:"noWait,omitempty"`
	Sessions  []Session `json:"sessions"`
}

// DgramRule is one explicit datagram fate.
type DgramRule struct {
	Client int    `json:"client"`          // which client's flow
	Flow   string `json:"flow,omitempty"`  // if set: only this flow (client socket address); a client may own several
	Dir    int    `json:"dir"`             // 0 c2s, 1 s2c
	Index  int    `json:"index"`           // datagram index within (flow, dir); -1 with Match set = by content class
	Match  string `json:"match,omitempty"` // targeted: "openreq","openresp","closereq","closeresp","data:<seq>","ack","anydata"; Nth counts matches
	Nth    int    `json:"nth,omitempty"`   // apply to the Nth.. match (0-based)
	Count  int    `json:"count,omitempty"` // how many consecutive matches (default 1)
	Kind   string `json:"kind"`            // "drop" | "dup" | "delay" | "corrupt"
	ArgUs  int64  `json:"argUs,omitempty"` // delay amount / duplicate spacing
	Copies int    `json:"copies,omitempty"`
	Off    int64  `json:"off,omitempty"` // corrupt: offset
	Del    int64  `json:"del,omitempty"`
	Ins    []byte `json:"ins,omitempty"`
	Xor    byte   `json:"xor,omitempty"` // corrupt: xor the byte at Off (if set, Del/Ins ignored)
}

// Blackhole drops every datagram of one direction in [FromUs, ToUs).
type Blackhole struct {
	Client int   `json:"client"` // -1 all
	Dir    int   `json:"dir"`    // 0,1 or -1 both
	FromUs int64 `json:"fromUs"`
	ToUs   int64 `json:"toUs"`
}

// StreamFault is a fault on one TCP-like connection (by dial order).
type StreamFault struct {
	Conn  int    `json:"conn"`
	Dir   int    `json:"dir"`
	Kind  string `json:"kind"` // "rewrite" | "cut-fin" | "cut-rst" | "stall" | "reset-at" | "blackhole-at"
	Off   int64  `json:"off,omitempty"`
	Del   int64  `json:"del,omitempty"`
	Ins   []byte `json:"ins,omitempty"`
	Xor   byte   `json:"xor,omitempty"`
	ArgUs int64  `json:"argUs,omitempty"`
	AtUs  int64  `json:"atUs,omitempty"`
}

type Net struct {
	LatencyUs   int64 `json:"latencyUs"`
	JitterUs    int64 `json:"jitterUs,omitempty"`
	BytesPerSec int64 `json:"bytesPerSec,omitempty"`
	RecvBuf     int   `json:"recvBuf,omitempty"`
	ChunkMode   int   `json:"chunkMode,omitempty"`
	DribbleHead int   `json:"dribbleHead,omitempty"`
	PathMTU     int   `json:"pathMtu,omitempty"`

	// Random datagram faults (rates per datagram), active until HealUs.
	DropRate          float64 `json:"dropRate,omitempty"`
	DupRate           float64 `json:"dupRate,omitempty"`
	DelayRate         float64 `json:"delayRate,omitempty"`
	MaxDelayUs        int64   `json:"maxDelayUs,omitempty"`
	CorruptRate       float64 `json:"corruptRate,omitempty"`
	MaxDropPerSeg     int     `json:"maxDropPerSeg,omitempty"` // fairness budget: drops per (flow,dir,type,seq); 0 = unlimited
	MaxHandshakeDrops int     `json:"maxHandshakeDrops,omitempty"`
	HealUs            int64   `json:"healUs,omitempty"` // 0: faults never stop
	// Disabled lists fault instances (by datagram id) turned into plain deliveries by the minimiser.
	Disabled []int `json:"disabled,omitempty"`

	Rules      []DgramRule   `json:"rules,omitempty"`
	Blackholes []Blackhole   `json:"blackholes,omitempty"`
	Stream     []StreamFault `json:"stream,omitempty"`
}

type RunSpec struct {
	Property      string          `json:"property"`
	Scenario      string          `json:"scenario"`
	Seed          uint64          `json:"seed"`
	Profile       string          `json:"profile,omitempty"`
	StartOffsetUs int64           `json:"startOffsetUs"`
	VirtualCapS   int             `json:"virtualCapS"`
	Server        Server          `json:"server"`
	Clients       []Client        `json:"clients"`
	Net           Net             `json:"net"`
	Yields        map[string]int  `json:"yields,omitempty"` // site -> max delay µs (0 = Gosched)
	Oracles       []string        `json:"oracles,omitempty"`
	Liveness      *Liveness       `json:"liveness,omitempty"`
	Extra         json.RawMessage `json:"extra,omitempty"`
	KeepLog       bool            `json:"keepLog,omitempty"`
	Dump          bool            `json:"dump,omitempty"` // reference pass: record segment geometry and wire bytes
	Attack        *Attack         `json:"attack,omitempty"`
	Hist          *History        `json:"hist,omitempty"`
	Ref           *RefPeer        `json:"ref,omitempty"`
	Close         *CloseSpec      `json:"close,omitempty"`
	Socks         *SocksSpec      `json:"socks,omitempty"`
	Reg           *RegSpec        `json:"reg,omitempty"`
}

// RegSpec drives serveruser.Registry under a cooperative scheduler (C07).
type RegSpec struct {
	Universe  []RUser  `json:"universe"`  // every credential that exists in this run
	Sets      [][]int  `json:"sets"`      // user-set versions: indices into Universe (no two with the same name)
	Mandatory bool     `json:"mandatory"` // initial hint-mandatory flag
	Sources   []string `json:"sources"`   // source IPs; "collide" entries are replaced by addresses that share source 0's cache bucket
	Segs      []RSeg   `json:"segs"`
	Actors    [][]ROp  `json:"actors"`
}

type RUser struct {
	Name      string `json:"name"`
	Password  string `json:"password"`
	ShareWith int    `json:"shareWith"` // >=0: this user is configured with the hashed credential of Universe[ShareWith]
}

type RSeg struct {
	Cred int `json:"cred"` // Universe index whose key encrypts the segment (-1: a key nobody has)
	Hint int `json:"hint"` // Universe index whose NAME the hint is computed for; -1: the hint of a name nobody has; -2: random bytes
}

type ROp struct {
	Op      string `json:"op"` // discover | setusers | mandatory | sleep
	Seg     int    `json:"seg,omitempty"`
	Source  int    `json:"source,omitempty"`
	Current bool   `json:"current,omitempty"` // requireCurrent (the TCP path) or not (the UDP path)
	Record  bool   `json:"record,omitempty"`  // record the authentication into the source cache afterwards
	Set     int    `json:"set,omitempty"`
	On      bool   `json:"on,omitempty"`
	Us      int64  `json:"us,omitempty"`
}

// SocksSpec drives the production server stack (protocol.Mux + socks5.Server
// built against the simulated OS network "vnet") and, optionally, the client
// daemon's SOCKS5 front end.
type SocksSpec struct {
	Mode    string    `json:"mode"` // "server": raw SOCKS requests over a client mux; "daemon": app -> client daemon SOCKS5 -> mux -> server; "auth": SOCKS5 negotiation only (C11)
	Rules   []ERule   `json:"rules,omitempty"`
	Reqs    []SReq    `json:"reqs,omitempty"`
	Auth    *AuthSpec `json:"auth,omitempty"`
	ReadBuf int       `json:"readBuf,omitempty"` // application read buffer for tunnel replies (0 = 65536)
	// Egress: how the SOCKS5 egress proxy (reached through PROXY rules) behaves for the k-th connection it
	// accepts (cycled). "" well-behaved; "rst-after-reply" / "fin-after-reply" end the control connection ArgUs after
	// the reply; "rst-before-reply", "garbage-reply", "short-reply", "bad-atyp-reply", "error-reply",
	// "huge-domain-reply", "silent" misbehave at the reply.
	Egress []EgressBehaviour `json:"egress,omitempty"`
}

type EgressBehaviour struct {
	Mode  string `json:"mode"`
	ArgUs int64  `json:"argUs,omitempty"`
}

type ERule struct {
	IPRanges []string `json:"ipRanges,omitempty"`
	Domains  []string `json:"domains,omitempty"`
	Action   string   `json:"action"` // PROXY | DIRECT | REJECT
}

type SReq struct {
	Client  int      `json:"client"`
	AtUs    int64    `json:"atUs"`
	Cmd     int      `json:"cmd"`   // 1 CONNECT, 3 UDP ASSOCIATE
	AType   int      `json:"atype"` // 1 IPv4, 3 domain, 4 IPv6
	Host    string   `json:"host"`  // IP literal or domain (may be empty)
	Port    int      `json:"port"`
	Data    int      `json:"data,omitempty"` // CONNECT: bytes to send and expect echoed
	Dgrams  []SDgram `json:"dgrams,omitempty"`
	Raw     []byte   `json:"raw,omitempty"`     // if set, these bytes are written instead of a well-formed request
	Wrapper bool     `json:"wrapper,omitempty"` // UDP: the application uses apicommon.UDPAssociateWrapper on top of the tunnel
}

type SDgram struct {
	AType     int    `json:"atype"`
	Host      string `json:"host"`
	Port      int    `json:"port"`
	Size      int    `json:"size"`
	Fill      int    `json:"fill,omitempty"`      // 0 PRF, 1 all 0x00, 2 all 0xff, 3 alternating 00/ff
	Malformed string `json:"malformed,omitempty"` // "" | bad-prefix | bad-suffix | truncated | short-header | frag
	GapUs     int64  `json:"gapUs,omitempty"`
	// SplitAt (well-formed datagrams, not through the wrapper): the application frames the datagram
	// itself (0x00 | length | packet | 0xff, as documented) and writes the frame in pieces cut at
	// these offsets, a millisecond apart, so the carrying stream delivers it in several chunks
	SplitAt []int `json:"splitAt,omitempty"`
}

// AuthSpec is a batch of SOCKS5 negotiations against one configuration (C11).
type AuthSpec struct {
	Creds      [][2]string `json:"creds"`      // configured user/password pairs
	ServerSide bool        `json:"serverSide"` // authentication performed by the proxy server instead of the client daemon
	Cases      []AuthCase  `json:"cases"`
}

type AuthCase struct {
	Methods  []int  `json:"methods"`
	SubVer   int    `json:"subVer"` // sub-negotiation version byte (1 is valid)
	User     string `json:"user"`
	Pass     string `json:"pass"`
	Pipeline bool   `json:"pipeline,omitempty"` // send greeting, credentials and request without waiting for replies
	CutAt    int    `json:"cutAt,omitempty"`    // close the connection after this many bytes were sent (0 = never)
	StallUs  int64  `json:"stallUs,omitempty"`  // pause this long before the request
	Chunk    int    `json:"chunk,omitempty"`    // write in pieces of at most this many bytes (0 = whole)
}

// CloseSpec drives the C15 scenario: independent actors on both ends of each
// session plus global events (stop, reset, black-hole).
type CloseSpec struct {
	Actors    []Actor `json:"actors"`
	Events    []Event `json:"events,omitempty"`
	HorizonUs int64   `json:"horizonUs"` // actors are given this long; then everything is stopped
}

type Actor struct {
	Client  int    `json:"client"`
	Session int    `json:"session"`
	Side    string `json:"side"` // client | server
	Role    string `json:"role"` // writer | reader | deadliner | closer
	Ops     []AOp  `json:"ops"`
}

type AOp struct {
	Op    string `json:"op"` // write | read | sleep | setdl | setrdl | setwdl | close
	N     int    `json:"n,omitempty"`
	Us    int64  `json:"us,omitempty"` // sleep duration / deadline offset from now (0 clears the deadline)
	Count int    `json:"count,omitempty"`
}

type Event struct {
	AtUs int64  `json:"atUs"`
	Kind string `json:"kind"`          // client-stop | server-stop | reset | blackhole | udp-blackhole
	Arg  int    `json:"arg,omitempty"` // client index / connection index
}

// RefPeer configures the reference peer (written from docs/protocol.md) that
// talks to a real endpoint with its own, possibly skewed, clock and with every
// freedom the document allows.
type RefPeer struct {
	Mode           string `json:"mode"` // "client": reference client vs real server; "server": real client vs reference server
	Transport      string `json:"transport"`
	User           int    `json:"user"`
	SkewUs         int64  `json:"skewUs"`              // reference clock = bubble clock + skew
	KeySkewUs      *int64 `json:"keySkewUs,omitempty"` // override for the key-derivation instant
	TsSkewUs       *int64 `json:"tsSkewUs,omitempty"`  // override for the timestamp instant
	JumpAfter      int    `json:"jumpAfter,omitempty"` // after this many sent segments the reference clock jumps by JumpUs
	JumpUs         int64  `json:"jumpUs,omitempty"`
	Expect         string `json:"expect"` // accept | refuse | either
	Writes         []int  `json:"writes"` // application payload sizes sent by the initiating side
	PiggybackExtra int    `json:"piggybackExtra,omitempty"`
	Pad1           []int  `json:"pad1,omitempty"` // padding lengths, cycled
	Pad2           []int  `json:"pad2,omitempty"`
	LEMode         int    `json:"leMode,omitempty"`
	LERot          int    `json:"leRot,omitempty"`
	LEPadBit       int    `json:"lePadBit,omitempty"`
	MaxChunk       int    `json:"maxChunk,omitempty"` // echo/data segment payload size cap
	AckOnly        bool   `json:"ackOnly,omitempty"`  // interleave ack-only segments
	// OpenRespPayload (reference server): whatever the server has to say when the open request
	// arrives (the SOCKS reply and the first echoed bytes, up to 1024) rides on the
	// open-session response, as the protocol description allows for any session segment
	OpenRespPayload bool `json:"openRespPayload,omitempty"`
}

// History is an operation history against one component under the virtual
// clock, checked step by step against a small reference model.
type History struct {
	Kind       string `json:"kind"` // "replaycache" | "counter" | "keycache"
	Cap        int    `json:"cap,omitempty"`
	IntervalUs int64  `json:"intervalUs,omitempty"`
	Ops        []HOp  `json:"ops"`
}

type HOp struct {
	Op      string `json:"op"` // sleep | dup | add | load | window | dump | reload | restart | lookup
	SleepUs int64  `json:"sleepUs,omitempty"`
	Item    int    `json:"item,omitempty"`
	Tag     int    `json:"tag,omitempty"`
	Delta   int64  `json:"delta,omitempty"`
	FromUs  int64  `json:"fromUs,omitempty"` // window: t1 = now - FromUs
	ToUs    int64  `json:"toUs,omitempty"`   // window: t2 = now - ToUs
	Count   int    `json:"count,omitempty"`  // repeat count (bursts)
	AtUs    int64  `json:"atUs,omitempty"`   // keycache: explicit instant (relative to run start)
	Cut     int    `json:"cut,omitempty"`    // reload: truncate the dump file to this many bytes first (0 = intact)
}

// Attack describes attacker actors that run beside the genuine workload.
type Attack struct {
	Probes []Probe `json:"probes"`
}

// Probe is one attacker connection / datagram burst.
type Probe struct {
	Kind      string `json:"kind"`      // random | prefix | bitflip | trunc | foreign-user | wrong-password | stolen-hint | replay-stream | replay-prefix | replay-first | replay-dgrams | replay-first-dgram | hostile
	Transport string `json:"transport"` // tcp | udp
	IP        string `json:"ip"`
	AtUs      int64  `json:"atUs"`               // earliest start (relative to run start)
	AfterEnd  bool   `json:"afterEnd,omitempty"` // wait until the source session has ended
	// AfterEndDelayUs: wait this much longer after the source sessions ended (the server forgets a
	// closed session at its 5 s housekeeping tick; only then can a copy of its first segment open a session)
	AfterEndDelayUs int64  `json:"afterEndDelayUs,omitempty"`
	Source          int    `json:"source"` // genuine client whose traffic is copied
	Len             int    `json:"len,omitempty"`
	Arg             int    `json:"arg,omitempty"` // prefix length / bit index / segment count
	Dribble         bool   `json:"dribble,omitempty"`
	HoldUs          int64  `json:"holdUs,omitempty"`
	Seed            uint64 `json:"seed,omitempty"`
	User            int    `json:"user,omitempty"` // hostile: index of the registered user the attacker controls
	Count           int    `json:"count,omitempty"`
	// Intercepted (prefix/trunc): the attacker sits on the path. The genuine first
	// segment it copies never reaches the server (the spec's fault plan swallows it), so the
	// server's replay detection has not seen it; only proper prefixes are sent.
	Intercepted bool `json:"intercepted,omitempty"`
	CutTail     int  `json:"cutTail,omitempty"` // intercepted: send the segment without its last CutTail bytes (overrides Arg)
	Port        int  `json:"port,omitempty"`    // if set: the probe goes to this server port (a sibling listener) instead of the one the victim uses
}

// SegGeo is the byte geometry of one decoded segment (reference pass of C04).
type SegGeo struct {
	Scope  string `json:"scope"` // "tcp#<conn>" or the client flow address
	Client int    `json:"client"`
	Conn   int    `json:"conn"` // tcp: connection index
	Dir    int    `json:"dir"`
	Index  int    `json:"index"` // udp: datagram index within (flow, dir)
	Type   int    `json:"type"`
	Sess   uint32 `json:"sess"`
	Seq    uint32 `json:"seq"`
	AtUs   int64  `json:"atUs"` // virtual time the segment was completely emitted
	Start  int64  `json:"start"`
	End    int64  `json:"end"`
	// field spans: [off,end) pairs in the order nonce, encMeta, metaTag, padding1, body, payloadTag, padding2
	Spans [7][2]int64 `json:"spans"`
}

// Liveness arms the C02 progress oracle.
type Liveness struct {
	BoundUs int64 `json:"boundUs"` // every byte written must be read within this long after max(write time, heal)
}

type Violation struct {
	Property string `json:"property"`
	Class    string `json:"class"`  // stable cause class; signature = property + class
	Detail   string `json:"detail"` // human readable
	AtUs     int64  `json:"atUs"`
}

type SessionOutcome struct {
	Client, Session int
	C2SWritten      int64  `json:"c2sWritten"`
	C2SRead         int64  `json:"c2sRead"`
	S2CWritten      int64  `json:"s2cWritten"`
	S2CRead         int64  `json:"s2cRead"`
	ClientEnd       string `json:"clientEnd"` // how the client's reader ended: "eof","err:<msg>","done","cap"
	ServerEnd       string `json:"serverEnd"`
	DialErr         string `json:"dialErr,omitempty"`
	User            string `json:"user,omitempty"`
}

type RunResult struct {
	Property   string            `json:"property"`
	Seed       uint64            `json:"seed"`
	Completed  bool              `json:"completed"` // scenario ran to its end (not killed by the cap)
	CapHit     bool              `json:"capHit,omitempty"`
	Crash      string            `json:"crash,omitempty"` // set by the driver when the process died
	Violations []Violation       `json:"violations,omitempty"`
	Notes      []Violation       `json:"notes,omitempty"` // other properties' oracles that tripped in this run
	Harness    []string          `json:"harness,omitempty"`
	EventHash  string            `json:"eventHash"`
	Events     int64             `json:"events"`
	VirtualUs  int64             `json:"virtualUs"`
	NonTrivial bool              `json:"nonTrivial"`
	Faults     map[string]int    `json:"faults,omitempty"`
	Probes     map[string]int    `json:"probes,omitempty"`
	States     []string          `json:"states,omitempty"`
	Sessions   []SessionOutcome  `json:"sessions,omitempty"`
	Realised   []DgramRule       `json:"realised,omitempty"` // non-default datagram fates actually applied
	Checks     int64             `json:"checks"`             // oracle assertions evaluated
	Segments   int               `json:"segments,omitempty"` // segments decoded by the tap
	Info       map[string]string `json:"info,omitempty"`
	Log        []string          `json:"log,omitempty"`
	Geo        []SegGeo          `json:"geo,omitempty"`
	Wire       map[string]string `json:"wire,omitempty"` // hex: "tcp#<conn>/<dir>" -> stream bytes; "<flow>/<dir>/<index>" -> datagram
	WallMs     int64             `json:"wallMs"`
}

#!/bin/sh
# usage: tools/try_seed_scratch.sh <patch.diff> <tier> <property id>...
# Like try_seed.sh, but leaves /repo alone: a scratch worktree of /repo's HEAD gets the change and a
# scratch copy of /verif (go.mod pointed at that worktree) runs the checks. For use while /repo is busy
# with a long run; the recorded result of a seeded change still comes from try_seed.sh on /repo itself.
root="$(cd "$(dirname "$0")/.." && pwd)"
patch="$(realpath "$1")"; tier="$2"; shift 2
tag=$(basename "$(dirname "$patch")")-$$
wt=/tmp/scratchrepo-$tag; vc=/tmp/scratchverif-$tag
cleanup() { git -C /repo worktree remove --force "$wt" 2>/dev/null; rm -rf "$vc" "$wt"; }
trap cleanup EXIT INT TERM
git -C /repo worktree add -q --detach "$wt" HEAD || exit 2
git -C "$wt" apply "$patch" || { echo "patch does not apply"; exit 2; }
mkdir -p "$vc" && rsync -a --exclude build --exclude bin --exclude replays --exclude .git "$root"/ "$vc"/
sed -i "s#=> /repo#=> $wt#" "$vc/go.mod"
for id in "$@"; do
  out=$(VERIF_SCRATCH_REPO="$wt" "$vc/check" "$id" "$tier" 2>&1); rc=$?
  v=$(echo "$out" | grep -c '^VIOLATION property='"$id")
  if [ $rc -eq 1 ] && [ "$v" -ge 1 ]; then verdict=CAUGHT; elif [ $rc -eq 0 ]; then verdict=MISSED; else verdict="BROKEN(rc=$rc)"; fi
  echo "$id $tier $verdict :: $(echo "$out" | grep -A2 '^VIOLATION' | tr '\n' ' ' | cut -c1-420)"
  [ -n "$SHOW_KNOWN" ] && echo "$out" | grep "^KNOWN" | grep -o "class [^,]*, seen in [0-9]* runs" | sed "s/^/    known: /"
  [ "$verdict" = CAUGHT ] || echo "$out" | grep -v '^KNOWN' | tail -5 | cut -c1-300 | sed 's/^/    /'
done

#!/bin/sh
# usage: tools/revert_fix_check.sh [scratch] [tier]
# For every "fixed" entry of known_findings.json: take the fix back out of the working tree (reverse patch of
# that one commit), run the property's check, expect the violation to return, and restore the tree.
# With "scratch" as first argument the work happens in a scratch worktree + copy of /verif (tools/try_seed_scratch.sh).
root="$(cd "$(dirname "$0")/.." && pwd)"; cd "$root" || exit 2
tool=tools/try_seed.sh
if [ "$1" = scratch ]; then tool=tools/try_seed_scratch.sh; shift; fi
tier="${1:-quick}"
python3 -c "
import json
for f in json.load(open('known_findings.json'))['fixed']: print(f['property'], f['commit'])
" | while read prop commit; do
  d=/tmp/revfix-$commit; mkdir -p $d
  git -C /repo diff "$commit" "$commit^" > $d/patch.diff
  if ! git -C /repo apply --check $d/patch.diff 2>/dev/null; then echo "$prop $commit: reverse patch does not apply to HEAD (later commits touch the same lines)"; rm -rf $d; continue; fi
  echo "== $prop without fix $commit: $($tool $d/patch.diff $tier $prop | head -1 | cut -c1-300)"
  rm -rf $d
done

#!/bin/sh
# usage: tools/try_seed.sh <patch.diff> <tier> <property id>...
# Applies a seeded change to /repo's working tree, runs the named checks against it, and always undoes it.
# Prints one line per check: CAUGHT (exit 1 + VIOLATION line), MISSED (exit 0) or BROKEN (anything else).
root="$(cd "$(dirname "$0")/.." && pwd)"
patch="$(realpath "$1")"; tier="$2"; shift 2
cd "$root" || exit 2
if [ -n "$(git -C /repo status --porcelain)" ]; then echo "/repo is not clean"; exit 2; fi
undo() { git -C /repo checkout -- . ; git -C /repo clean -fdq -- pkg apis cmd 2>/dev/null; }
trap undo EXIT INT TERM
git -C /repo apply "$patch" || { echo "patch does not apply"; exit 2; }
for id in "$@"; do
  out=$(./check "$id" "$tier" 2>&1); rc=$?
  v=$(echo "$out" | grep -c '^VIOLATION property='"$id")
  if [ $rc -eq 1 ] && [ "$v" -ge 1 ]; then verdict=CAUGHT; elif [ $rc -eq 0 ]; then verdict=MISSED; else verdict="BROKEN(rc=$rc)"; fi
  echo "$id $tier $verdict :: $(echo "$out" | grep -A2 '^VIOLATION' | tr '\n' ' ' | cut -c1-420)"
  [ "$verdict" = CAUGHT ] || echo "$out" | grep -v '^KNOWN' | tail -5 | cut -c1-300 | sed 's/^/    /'
done

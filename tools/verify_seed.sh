#!/bin/sh
# usage: verify_seed.sh <dir with patch.diff and demo/> <label>
# Confirms in a fresh scratch worktree of /repo: the patch applies, builds, the pinned suite passes with it,
# the demonstration fails with it and passes without it. Prints a one-line verdict; details in <dir>/verify.log.
d="$1"; label="$2"
wt=/tmp/seedverify/$label
rm -rf "$wt"; mkdir -p /tmp/seedverify
git -C /repo worktree add -q --detach "$wt" HEAD || exit 2
export GOFLAGS=-mod=mod GOPROXY=off GOSUMDB=off
log="$d/verify.log"; : > "$log"
cd "$wt" || exit 2
cp -r "$d/demo/." "$wt/" 
pkgs=$(cd "$d/demo" && find . -name 'zz_demo_test.go' -exec dirname {} \; | sort -u | tr '\n' ' ')
echo "## demo without the change" >> "$log"
go test -vet=off -count=1 -run 'Demo' $pkgs >> "$log" 2>&1; base=$?
git apply "$d/patch.diff" >> "$log" 2>&1 || { echo "$label: PATCH DOES NOT APPLY"; exit 1; }
echo "## build with the change" >> "$log"
go build ./... >> "$log" 2>&1; build=$?
echo "## demo with the change" >> "$log"
go test -vet=off -count=1 -run 'Demo' $pkgs >> "$log" 2>&1; mut=$?
echo "## pinned suite with the change (demo skipped)" >> "$log"
go test -vet=off -count=1 -skip 'Demo' ./... >> "$log" 2>&1; suite=$?
echo "$label: demo-without=$base(want 0) build=$build(want 0) demo-with=$mut(want !=0) suite-with=$suite(want 0)"
cd /; git -C /repo worktree remove --force "$wt"

#!/bin/sh
# usage: tools/seeded_regression.sh [tier]   — every kept seeded change against its property's check on /repo (applied, checked, undone)
cd "$(dirname "$0")/.." || exit 2
tier="${1:-quick}"
for m in seeded/*/meta.json; do
  d=$(dirname "$m"); id=$(python3 -c "import json;print(json.load(open('$m'))['property'])")
  printf '%-55s ' "$(basename $d)"; tools/try_seed.sh "$d/patch.diff" "$tier" "$id" | head -1 | cut -c1-160
done

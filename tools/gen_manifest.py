#!/usr/bin/env python3
"""Regenerates /verif/MANIFEST.json from the table below (kept valid at all times)."""
import json, subprocess, sys

TECH = "deterministic simulation with fault injection: seeded search over schedules and fault sequences (synctest bubble + seeded Go runtime overlay + simnet), oracles on every read / every network event / recorded history"

CHECKS = {
 "C01": ("exploration", "§3 C01", "Seeded search over many short, diverse whole-system runs of the real client/server stack on a simulated TCP network: every Read at either end is compared offset-exactly with a PRF stream, under random re-chunking, back-pressure, multiplexing, traffic patterns and handshake modes. Sampling, not proof: right for a property quantified over schedules, chunkings and configurations that no finite enumeration covers. Applications reuse their buffers after Write; a third of the runs take connections straight from protocol.Mux (first write on the open request); slow-consumer runs fill the 4096-segment receive queue.",
         "simnet's TCP model (ordered reliable byte stream, arbitrary chunking, bounded buffers); refproto tap; go1.26.8 runtime overlay"),
 "C02": ("exploration", "§3 C02", "Same stream oracle over the UDP transport with datagram loss, duplication, delay/reordering, corruption, bursts, partitions and targeted faults on named datagrams, plus a bounded-progress oracle after the recorded heal instant under explicit fairness budgets. Buffer reuse, raw-multiplexer connections and slow consumers as in C01.",
         "the fairness budgets recorded in each spec define 'fair share'; simnet's UDP model"),
 "C03": ("exploration", "§3 C03", "Write-then-close scripts on both transports and both roles with faults aimed at the datagrams in flight at close time; oracle: all bytes before EOF, or an error - never EOF after a strict prefix.",
         "only the direction written by the closing side is judged"),
 "C04": ("fault_enumeration", "§3 C04", "One in-path mutation per run, positions enumerated from the byte geometry that the reference decoder recorded in a fault-free reference pass of the same seed: every segment x field class x offsets x {flip, substitute, insert, delete, truncate} plus whole-segment swap/duplicate/remove/splice; random shapes on top. Oracle: delivered bytes are a prefix (TCP) / the intact stream (UDP); no crash. The enumerated list is exhaustive for the stated positions of the chosen shapes; each tier runs a strided, seed-offset subset of it (quick 1400, thorough 40 000 of about 200 000). UDP also: whole-datagram duplicate/drop/reorder, reflection into the opposite direction of the same session, splices from a session in progress on another flow.",
         "determinism (one seed = one execution) makes the reference geometry valid up to the mutation point; only causal splices (source emitted before the target) are generated"),
 "C05": ("fault_enumeration", "§3 C05", "Attacker actors without a credential beside genuine traffic; enumerated: every prefix and single-bit mutation of a genuine first segment (TCP and UDP), plus random strings, truncations and reference-encoded handshakes under foreign credentials / stolen hints. Oracle over the whole run: zero bytes or datagrams from the server to an attacker address, no Accept, no session, genuine workload intact. On-path variant: the genuine first segment is swallowed and a truncation of it sent from elsewhere (one victim per truncation); bit flips presented after the copied session has ended and been forgotten.",
         "attackers are identified by source address; copies of genuine traffic are presented only after the server has answered the original (otherwise the copy is the original)"),
 "C06": ("exploration", "§3 C06", "Replayer actors re-send recorded genuine TCP streams / prefixes / first segments and UDP datagrams from other addresses 0 s - 5 min later, before/after the original ended, concurrently with fresh dials, with the replay caches rebased onto the virtual clock; zero-reply / no-Accept / no-session oracle. Second scenario: ReplayCache operation histories under the virtual clock against an ideal bounded-memory set. Directed histories around expiry instants; a sixth of the runs repeated under the race detector (races inside pkg/replay count).",
         "replays are byte-exact; the cache model mirrors only the documented capacity/interval contract"),
 "C07": ("exploration", "§3 C07", "serveruser.Registry driven by a cooperative scheduler on guarded yield sites (exact, seed-chosen interleavings of 1-3 discovery actors, cache recording and a reload actor) over user universes with re-keyed and shared credentials, colliding cache sources, hint-mandatory toggles and cache ageing; the recorded history is checked with porcupine against a reference decision that ignores caches and sources. End-to-end attribution is asserted in whole-system runs. Hint collisions are generated (birthday search); discoveries that must be current linearize after their last attempt.",
         "hook H2 (yield sites, bucket index); the reference decision uses refproto's key derivation; porcupine Unknown is never reported"),
 "C08": ("exploration", "§3 C08", "A reference peer with an explicit, skewed and jumping clock talks to a real endpoint in both roles and on both transports: accept grid |d| <= 60 s (minus flight time) around key-slot changes and minute ticks must handshake and echo; refuse grid (timestamp >= 2 min off, key >= 4 min off, both) must get nothing. Key-cache lookup histories with non-monotonic instants are checked against the reference derivation (exactly the three candidate slots, never another). Plus idle-before-first-write runs (real client and server, 1 s .. 1 h between dial and first write over TCP).",
         "the skewed party is always the reference peer; refproto is the trusted base; hook H3 exposes the cache's explicit-time entry points"),
 "C09": ("exploration", "§3 C09", "Direction 1: every segment emitted by real endpoints in C01/C02/C03-style runs must decode with the independent reference codec. Direction 2: reference client vs real server and real client vs reference server, using every documented freedom (padding 0..255, all low-entropy modes/rotations/padding bits, maximal payloads, piggy-backed open payload up to 1024, ack-only segments); the application must get exactly the bytes. User names up to 64 bytes; every emitted nonce must carry the documented user hint; the reference server may piggyback on its open-session response.",
         "refproto shares no code with /repo and was written from docs/protocol.md only; loss-free link for the UDP reference peers"),
 "C10": ("exploration", "§3 C10", "A hostile peer with a valid credential emits reference-encoded segments with arbitrary types, session ids (incl. other users' established sessions), sequence/ack/window/length/low-entropy fields on both transports, mixed with the unauthenticated corpus, while another user's sessions run. Oracle: the worker process survives (panic/fatal = violation with the first mieru frame as signature) and the victim's stream oracle holds. Every fifth run: the production stack forwards requests to a hostile SOCKS5 egress proxy (UDP associations, resets/closes around its reply, malformed replies, silence).",
         "one OS process per run makes a crash observable and attributable to a seed; hostile servers against real clients are not simulated"),
 "C18": ("exploration", "§3 C18", "UDP associations through the production server stack over a re-chunked TCP carrier or a lossy UDP carrier: datagrams of size 0..65507 full of marker bytes to several IPv4/IPv6/domain destinations that echo; malformed frames and undersized buffers injected. Oracle: per destination the received sequence equals the sent one, every datagram arrives where its header says, every echo names the replying host and carries the same bytes, errors - never garbage - after a framing violation. Frames also written in pieces cut inside the frame header.",
         "loss-free, order-preserving egress UDP in the simulation; truncated frames are generated only as the last write of an association (they cannot be told apart otherwise)"),
 "C19": ("exploration", "§3 C19", "Counter operation histories (adds in bursts, sleeps from 1 us to 30 days across every roll-up age, loads, windows, dump/restart/load with intact and torn files) against a list-of-increments model under the virtual clock; and whole-system quota runs where a user crosses its allowance and then opens new sessions next to other users: per-user counters equal what the server application read/wrote, over-quota sessions are refused with the quota status and never reach Server.Accept, everyone else is served. Snapshots held across compactions; dumps loaded by a process that never saw the group.",
         "loose reading of the allowance around the threshold; real temporary file for the dump"),
 "C11": ("fault_enumeration", "§3 C11", "SOCKS5 negotiations against the real front end over a simulated connection: every method list of length <= 3 (4 in the thorough tier) over {0x00,0x01,0x02,0x80,0xFF} x credential configuration x placement x sub-negotiation variant is enumerated; random long lists, blind pipelining, truncation at every byte, stalls past the handshake timeout and tiny write chunks are sampled. Oracle: the request is served iff a configured pair was presented (or none is configured and no-auth was offered). Wrong credentials include every cross pairing of configured names and passwords.",
         "'served' is observed at ProxyDialer.DialContext (client placement) or at the proxy server's dial through vnet (server placement)"),
 "C12": ("exploration", "§3 C12", "The production server stack (Mux + socks5.Server) runs against a simulated OS network that interprets and records every dial target and datagram destination as an OS would; users with and without the loopback/private grants send CONNECT / UDP-ASSOCIATE requests and per-datagram headers drawn from an enumerated table of destination encodings, under random egress rule lists. Oracle: reply 0x02 and nothing reaches a loopback/private host without the grant; granted and public traffic is served; first matching rule wins.",
         "the stub OS semantics (empty host / unspecified address reach the local machine; case-insensitive hosts table) are the stated assumption of this check"),
 "C13": ("exploration", "§3 C13", "Wire-tap invariants evaluated on every datagram of C02/C03-style runs with the independent reference decoder: cumulative ack <= in-order prefix delivered to the acker; retransmissions identical in type/fragment/payload; first transmissions gapless from 0.",
         "refproto (written from docs/protocol.md) is the trusted base; simnet delivery events are ground truth for 'received'"),
 "C14": ("exploration", "§3 C14", "Wire-tap invariants on every datagram/segment of runs sweeping MTU x padding x low-entropy mode x write sizes x fault profiles (retransmissions, acks, control segments): datagram <= sender MTU, documented length limits. Half of the UDP runs are size sweeps around one and two maximal paddings of room.",
         "refproto is the trusted base"),
 "C15": ("exploration", "§3 C15", "Independent actor goroutines on both ends of 1-4 sessions issue Write/Read/SetDeadline/Close concurrently, with client Stop, server Stop, TCP reset / black-hole and UDP black-hole at seeded instants; oracles over the recorded call history (bounded return of Close/Stop and of every call blocked on an affected connection, deadlines bound every call until changed, no timeout without a user deadline), a goroutine-profile leak check 5 virtual minutes after both ends stopped, the virtual-time cap as deadlock detector, and a race-detector pass over a sixth of the runs. Profiles: plain close, back-pressure, deadlines, stop (half of them inside a dial), underlay failure, stop/reset under back-pressure, one-way use; 0-RTT and raw-multiplexer connections.",
         "single-P schedules: races are found by happens-before analysis, not true parallelism; silent TCP failures are left to the (unmodelled) kernel"),
 "C16": ("exploration", "§3 C16", "Configuration checks (Validate/NewConfig/Effective/Encode-Decode) on every generated pattern plus wire-tap checks of padding maxima, nonce prefix, TCP fragmentation and low-entropy rules against Effective() in whole-system runs.",
         "implicit values are held to Config.Effective(); refproto is the trusted base"),
}

NOT_YET = {
}

NA = {
 "C17": "pure function of its input (low-entropy codec bijection/canonicity, PDEP/PEXT equivalence): no schedule, clock, fault or interleaving for a simulator to own; exercised end to end by C01/C02/C04/C09 but not decided by this technique",
 "C20": "pure functions over the configuration input space plus one unconditional os.WriteFile; the statement claims nothing about crashes, concurrency or time, so deterministic simulation has nothing to decide",
}

ALL = ["C%02d" % i for i in range(1, 21)]

def main():
    hooks_commits = []
    try:
        out = subprocess.check_output(["git", "-C", "/repo", "log", "--format=%h %s"]).decode().splitlines()
        hooks_commits = [l.split()[0] for l in out if l.split(" ", 1)[1].startswith("verif hook")]
    except Exception:
        pass
    m = {
        "version": 1,
        "setup_cmd": "./setup.sh",
        "hooks": {
            "guard": "verif",
            "enable": "go test -tags verif (the checks build /repo's working tree with -tags verif and a -overlay for the Go runtime and pkg/socks5's net import)",
            "baseline_off_cmd": "cd /repo && go build ./... && go test -mod=mod -vet=off -count=1 -timeout 25m ./...",
            "source_commits": hooks_commits,
            "add_only": True,
        },
        "engines": [{
            "name": "vsim",
            "path": "/verif/cmd/vsim (driver), /verif/sim (simulated world, one OS process per run), /verif/simnet (network), /verif/refproto (reference codec)",
            "serves_properties": sorted(CHECKS.keys()),
            "kind_free_text": "whole-process deterministic simulation: go1.26.8 testing/synctest bubble + seeded runtime overlay, in-memory network behind mieru's dialer/listener seams, seeded fault plans, per-run JSON specs that double as replay files, delta-debugging minimiser",
        }],
        "checks": [],
        "notes": "Exit codes: 0 property held on everything explored; 1 VIOLATION (replay file written); 2 build/harness problem (never a verdict). KNOWN-FINDING lines come only from /verif/known_findings.json.",
        "not_applicable": [],
    }
    for pid in ALL:
        if pid in CHECKS:
            cat, ref, text, note = CHECKS[pid]
            m["checks"].append({
                "property_id": pid,
                "quick_cmd": "./check %s quick" % pid,
                "thorough_cmd": "./check %s thorough" % pid,
                "evidence_file": "/verif/evidence/%s.json" % pid,
                "replay_cmd_template": "./bin/vsim replay {path}",
                "engine": "vsim",
                "level_claimed": {"category": cat, "text": text, "design_ref": "DESIGN.md " + ref},
                "level_note": note,
                "technique": TECH,
            })
        elif pid in NA:
            m["not_applicable"].append({"property_id": pid, "reason": NA[pid]})
        else:
            m["not_applicable"].append({"property_id": pid, "reason": NOT_YET.get(pid, "not claimed yet: the check for this property is still being built (see DESIGN.md §3 for its design)")})
    json.dump(m, open("/verif/MANIFEST.json", "w"), indent=1)
    print("wrote MANIFEST.json with", len(m["checks"]), "checks")

if __name__ == "__main__":
    main()

#!/bin/sh
# usage: tools/sweep.sh <tier> <seed>...   — run every claimed check for each seed; print one line per check
cd "$(dirname "$0")/.." || exit 2
tier="$1"; shift
ids=$(python3 -c "import json;print(' '.join(c['property_id'] for c in json.load(open('MANIFEST.json'))['checks']))")
for seed in "$@"; do
  for id in $ids; do
    out=$(VERIF_SEED=$seed ./check $id $tier 2>&1); rc=$?
    echo "seed=$seed $id rc=$rc $(echo "$out" | tail -1)"
    if [ $rc -ne 0 ]; then echo "$out" | grep -v "^KNOWN" | tail -15 | sed 's/^/    /' | cut -c1-400; fi
  done
done

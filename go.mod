module verifsim

go 1.26

toolchain go1.26.8

require (
	github.com/anishathalye/porcupine v1.3.0
	github.com/enfein/mieru/v3 v3.0.0
	golang.org/x/crypto v0.33.0
	google.golang.org/protobuf v1.34.2
)

require (
	github.com/google/btree v1.1.3 // indirect
	golang.org/x/sys v0.30.0 // indirect
)

replace github.com/enfein/mieru/v3 => /repo

package sim

import (
	"encoding/json"
	"fmt"
	"math/rand"
	"os"
	"runtime"
	"testing"
	"testing/cryptotest"
	"testing/synctest"
	"time"

	"verifsim/spec"
)

// TestRun executes exactly one simulated run described by $VSIM_SPEC and
// writes its result to $VSIM_OUT. One OS process per run: mieru keeps
// process-wide state (replay caches, cipher cache, metrics registry).
func TestRun(t *testing.T) {
	specPath := os.Getenv("VSIM_SPEC")
	outPath := os.Getenv("VSIM_OUT")
	if specPath == "" || outPath == "" {
		t.Skip("VSIM_SPEC / VSIM_OUT not set")
	}
	wallStart := time.Now()
	b, err := os.ReadFile(specPath)
	if err != nil {
		fmt.Fprintln(os.Stderr, "read spec:", err)
		os.Exit(3)
	}
	var s spec.RunSpec
	if err := json.Unmarshal(b, &s); err != nil {
		fmt.Fprintln(os.Stderr, "parse spec:", err)
		os.Exit(3)
	}
	// Announce the seed before anything can go wrong: a process that dies is
	// attributed to it by the driver.
	fmt.Fprintf(os.Stderr, "VSIM-RUN property=%s seed=%d\n", s.Property, s.Seed)

	runtime.MemProfileRate = 0
	runtime.VerifSetSeed(s.Seed ^ 0x6a09e667f3bcc909) // provided by the runtime overlay
	cryptotest.SetGlobalRandom(t, s.Seed^0xbb67ae8584caa73b)
	rand.Seed(int64(s.Seed ^ 0x3c6ef372fe94f82b))

	StartProfile()
	synctest.Test(t, func(t *testing.T) {
		RunInBubble(&s, outPath, wallStart)
	})
}

package sim

import (
	"fmt"
	"strconv"
	"strings"
	"sync"
	"time"

	"verifsim/refproto"
	"verifsim/simnet"
	"verifsim/spec"
)

// fatePlan decides the fate of every datagram: explicit rules first, then
// black-hole intervals, then the random rates of the profile — all subject to
// the fairness budgets that the liveness oracle depends on (DESIGN §2.3).
type fatePlan struct {
	mu          sync.Mutex
	w           *World
	dropsPerSeg map[string]int
	hsDrops     map[string]int
	matchCount  map[int]int // rule index -> matches seen
	disabled    map[int]bool
}

func newFatePlan(w *World) *fatePlan {
	f := &fatePlan{w: w, dropsPerSeg: map[string]int{}, hsDrops: map[string]int{}, matchCount: map[int]int{}, disabled: map[int]bool{}}
	for _, id := range w.Spec.Net.Disabled {
		f.disabled[id] = true
	}
	return f
}

func (f *fatePlan) clientOfFlow(flow string) int {
	for i := range f.w.Spec.Clients {
		if strings.HasPrefix(flow, f.w.Spec.Clients[i].IP+":") {
			return i
		}
	}
	return -1
}

func segClass(s *refproto.Segment) string {
	if s == nil {
		return "undecodable"
	}
	switch s.Meta.Type {
	case refproto.TypeOpenReq:
		return "openreq"
	case refproto.TypeOpenResp:
		return "openresp"
	case refproto.TypeCloseReq:
		return "closereq"
	case refproto.TypeCloseResp:
		return "closeresp"
	case refproto.TypeAckC2S, refproto.TypeAckS2C:
		return "ack"
	default:
		return "data"
	}
}

func (f *fatePlan) ruleMatches(i int, r *spec.DgramRule, d *simnet.Datagram, ci int, seg *refproto.Segment) bool {
	if r.Client != ci && r.Client != -1 {
		return false
	}
	if r.Dir != int(d.Dir) {
		return false
	}
	if r.Flow != "" && r.Flow != d.Flow {
		return false
	}
	if r.Match == "" {
		return r.Index == d.Index
	}
	cls := segClass(seg)
	ok := false
	switch {
	case r.Match == cls:
		ok = true
	case r.Match == "anydata" && (cls == "data" || cls == "openreq" || cls == "openresp"):
		ok = true
	case r.Match == "any":
		ok = true
	case strings.HasPrefix(r.Match, "data:") && (cls == "data" || cls == "openreq" || cls == "openresp"):
		want, _ := strconv.Atoi(strings.TrimPrefix(r.Match, "data:"))
		ok = seg != nil && int(seg.Meta.Seq) == want
	}
	if !ok {
		return false
	}
	n := f.matchCount[i]
	f.matchCount[i] = n + 1
	cnt := r.Count
	if cnt <= 0 {
		cnt = 1
	}
	return n >= r.Nth && n < r.Nth+cnt
}

func (f *fatePlan) decide(d *simnet.Datagram) simnet.Fate {
	f.mu.Lock()
	defer f.mu.Unlock()
	w := f.w
	ns := &w.Spec.Net
	if w.Tap.foreignAddr(d.Src) && w.Tap.foreignAddr(d.Dst) {
		return simnet.Fate{} // not mieru traffic: the fault plan is about the proxy transport
	}
	ci := f.clientOfFlow(d.Flow)
	seg := w.Tap.peek(d)
	now := w.nowUs()
	if f.disabled[d.ID] {
		return simnet.Fate{}
	}
	record := func(kind string, fate simnet.Fate, arg int64) simnet.Fate {
		w.fault("udp-" + kind)
		if w.Tap.flowHasInflight(d.Flow) {
			w.fault("udp-" + kind + "-inflight")
		}
		w.mu.Lock()
		if len(w.Res.Realised) < 20000 {
			w.Res.Realised = append(w.Res.Realised, spec.DgramRule{Client: ci, Dir: int(d.Dir), Index: d.Index, Kind: kind, ArgUs: arg, Match: segClass(seg), Nth: d.ID})
		}
		w.mu.Unlock()
		fate.Why = kind
		return fate
	}
	budgetKey := ""
	isHS := false
	if seg != nil {
		budgetKey = fmt.Sprintf("%s/%d/%d/%d/%d", d.Flow, d.Dir, seg.Meta.SessionID, seg.Meta.Type, seg.Meta.Seq)
		if seg.Meta.Type == refproto.TypeAckC2S || seg.Meta.Type == refproto.TypeAckS2C {
			budgetKey += fmt.Sprintf("/%d", seg.Meta.UnAckSeq)
		}
		isHS = w.Tap.handshakePending(d.Flow, seg.Meta.SessionID)
	}
	hsKey := ""
	if seg != nil {
		hsKey = fmt.Sprintf("%s/%d", d.Flow, seg.Meta.SessionID)
	}
	dropAllowed := func() bool {
		if ns.MaxDropPerSeg > 0 {
			if budgetKey == "" || f.dropsPerSeg[budgetKey] >= ns.MaxDropPerSeg {
				return false
			}
		}
		if ns.MaxHandshakeDrops > 0 && isHS && f.hsDrops[hsKey] >= ns.MaxHandshakeDrops {
			return false
		}
		return true
	}
	noteDrop := func() {
		if budgetKey != "" {
			f.dropsPerSeg[budgetKey]++
		}
		if isHS {
			f.hsDrops[hsKey]++
		}
	}

	// 1. explicit rules
	for i := range ns.Rules {
		r := &ns.Rules[i]
		if !f.ruleMatches(i, r, d, ci, seg) {
			continue
		}
		if (r.Kind == "drop" || r.Kind == "corrupt") && (ns.MaxDropPerSeg > 0 || ns.MaxHandshakeDrops > 0) && !dropAllowed() {
			w.fault("udp-rule-budget-spared")
			continue
		}
		switch r.Kind {
		case "drop":
			noteDrop()
			return record("drop", simnet.Fate{Drop: true}, 0)
		case "dup":
			copies := r.Copies
			if copies <= 0 {
				copies = 1
			}
			dl := []time.Duration{-1}
			for k := 1; k <= copies; k++ {
				dl = append(dl, w.Net.BaseLatency+time.Duration(int64(k)*max64(r.ArgUs, 1))*time.Microsecond)
			}
			return record("dup", simnet.Fate{Delays: dl}, r.ArgUs)
		case "delay":
			arg := r.ArgUs
			if ns.MaxHandshakeDrops > 0 && isHS && arg > 200000 {
				arg = 200000
			}
			return record("delay", simnet.Fate{Delays: []time.Duration{w.Net.BaseLatency + time.Duration(arg)*time.Microsecond}}, arg)
		case "corrupt":
			rw := simnet.Rewrite{Off: r.Off, Del: r.Del, Ins: r.Ins}
			if r.Xor != 0 {
				off := int(r.Off)
				if off < 0 {
					off = 0
				}
				if off >= len(d.Data) {
					off = len(d.Data) - 1
				}
				rw = simnet.Rewrite{Off: int64(off), Del: 1, Ins: []byte{d.Data[off] ^ r.Xor}}
			}
			noteDrop()
			return record("corrupt", simnet.Fate{Corrupt: &rw}, 0)
		}
	}
	// 2. black holes
	for _, b := range ns.Blackholes {
		if (b.Client == -1 || b.Client == ci) && (b.Dir == -1 || b.Dir == int(d.Dir)) && now >= b.FromUs && now < b.ToUs {
			return record("blackhole", simnet.Fate{Drop: true}, 0)
		}
	}
	// 3. random faults until the heal instant
	if ns.HealUs > 0 && now >= ns.HealUs {
		if !w.healed {
			w.healed = true
		}
		return simnet.Fate{}
	}
	h := simnet.H(w.Spec.Seed, "fate", simnet.HS(d.Flow), uint64(d.Dir), uint64(d.Index))
	u := simnet.Float(h)
	switch {
	case u < ns.DropRate:
		if dropAllowed() {
			noteDrop()
			return record("drop", simnet.Fate{Drop: true}, 0)
		}
		w.fault("udp-drop-budget-spared")
	case u < ns.DropRate+ns.DupRate:
		gap := time.Duration(1+simnet.Intn(h>>20, int(max64(ns.MaxDelayUs, 1000)))) * time.Microsecond
		return record("dup", simnet.Fate{Delays: []time.Duration{-1, w.Net.BaseLatency + gap}}, gap.Microseconds())
	case u < ns.DropRate+ns.DupRate+ns.DelayRate:
		extra := time.Duration(1+simnet.Intn(h>>20, int(max64(ns.MaxDelayUs, 1000)))) * time.Microsecond
		if ns.MaxHandshakeDrops > 0 && isHS && extra > 200*time.Millisecond {
			// while a handshake is pending the fairness budget allows no long delays at all: one
			// 2-second delay inflates the retransmission timer so much that a single further loss
			// exceeds the client's 10 s SOCKS timeout
			extra = 200 * time.Millisecond
		}
		return record("delay", simnet.Fate{Delays: []time.Duration{w.Net.BaseLatency + extra}}, extra.Microseconds())
	case u < ns.DropRate+ns.DupRate+ns.DelayRate+ns.CorruptRate:
		if dropAllowed() && len(d.Data) > 0 {
			noteDrop()
			off := simnet.Intn(h>>24, len(d.Data))
			bit := byte(1) << (h >> 60 & 7)
			rw := simnet.Rewrite{Off: int64(off), Del: 1, Ins: []byte{d.Data[off] ^ bit}}
			return record("corrupt", simnet.Fate{Corrupt: &rw}, int64(off))
		}
	}
	return simnet.Fate{}
}

func max64(a, b int64) int64 {
	if a > b {
		return a
	}
	return b
}

package sim

import (
	"bytes"
	"context"
	"encoding/binary"
	"fmt"
	"io"
	"net"
	"sort"
	"strings"
	"sync"
	"time"

	apicommon "github.com/enfein/mieru/v3/apis/common"
	"github.com/enfein/mieru/v3/apis/trafficpattern"
	"github.com/enfein/mieru/v3/pkg/appctl/appctlcommon"
	"github.com/enfein/mieru/v3/pkg/appctl/appctlpb"
	"github.com/enfein/mieru/v3/pkg/common"
	"github.com/enfein/mieru/v3/pkg/protocol"
	"github.com/enfein/mieru/v3/pkg/socks5"
	"google.golang.org/protobuf/proto"

	"verifsim/simnet"
	"verifsim/spec"
	"verifsim/vnet"
)

func init() { scenarios["socks"] = scenSocks }

// destination hosts of the simulated internet / server machine
var destHosts = []string{"93.184.216.34", "2001:db8::1", "198.51.100.9", "127.0.0.1", "::1", "10.1.2.3", "10.255.255.254", "172.16.0.1", "172.31.255.255", "192.168.1.1", "fd00::1", "127.255.255.254"}

const (
	destTCPPort = 80
	destUDPPort = 9999
	proxyHost   = "198.51.100.7"
	proxyPort   = 1080
)

type arrival struct {
	dest    string // destination host ip
	from    string
	kind    string // "tcp" | "udp" | "via-egress-proxy"
	payload []byte
	atUs    int64
}

type socksRT struct {
	w         *World
	ss        *spec.SocksSpec
	srvHost   *vhost
	cliHost   *vhost
	mux       *protocol.Mux
	s5        *socks5.Server
	cmux      []*protocol.Mux
	mu        sync.Mutex
	arrivals  []arrival
	proxied   []string // requests seen by the egress proxy (dst strings)
	egressSeq int
	results   []*reqResult
}

type reqResult struct {
	req      *spec.SReq
	reply    int // -1: no reply read
	err      string
	echoOK   bool
	sent     [][]byte // udp: payloads sent (well-formed ones), per datagram index
	replies  []udpReply
	tunErr   string
	wrapErr  string
	finished bool
}

type udpReply struct {
	header  []byte
	payload []byte
}

// scenSocks: the production server stack — protocol.Mux + socks5.Server built
// against the simulated OS (vnet) — is driven by raw SOCKS5 requests that
// travel over real client muxes. Serves C12 (loopback/private destinations,
// egress rules) and C18 (UDP-associate tunnelling); malformed inputs double as
// C10's SOCKS5 corpus (the process must survive).
func scenSocks(s *spec.RunSpec, res *spec.RunResult, finish func(*World)) {
	if s.Socks == nil {
		res.Harness = append(res.Harness, "socks scenario without spec")
		finish(nil)
	}
	if s.Socks.Mode == "auth" {
		scenSocksAuth(s, res, finish)
		return
	}
	w := &World{Spec: s, Res: res, sessions: map[string]*sessRT{}, probes: map[string]int{}, faults: map[string]int{}, states: map[string]struct{}{}, userUp: map[string]int64{}, userDown: map[string]int64{}}
	w.start = time.Now()
	w.Net = simnet.New(s.Seed)
	w.Net.KeepLog = s.KeepLog
	w.Net.BaseLatency = time.Duration(max64(s.Net.LatencyUs, 100)) * time.Microsecond
	w.Net.BaseJitter = time.Duration(s.Net.JitterUs) * time.Microsecond
	w.Tap = newTap(w)
	w.Net.SetTap(w.Tap)
	w.fate = newFatePlan(w)
	w.Net.FateFn = w.fate.decide
	w.Net.PolicyFn = w.streamPolicy
	protocol.VerifRebaseGlobals()
	w.startCap(finish)

	rt := &socksRT{w: w, ss: s.Socks}
	rt.srvHost = &vhost{w: w, node: w.Net.Node(s.Server.IP), name: "server"}
	vnet.ServerHost = rt.srvHost
	if err := rt.startDestinations(); err != nil {
		res.Harness = append(res.Harness, "destinations: "+err.Error())
		finish(w)
	}
	if err := rt.startServer(); err != nil {
		res.Harness = append(res.Harness, "server stack: "+err.Error())
		finish(w)
	}
	for i := range s.Clients {
		if err := rt.startClient(i); err != nil {
			res.Harness = append(res.Harness, "client: "+err.Error())
			finish(w)
		}
	}
	var wg sync.WaitGroup
	for i := range s.Socks.Reqs {
		r := &reqResult{req: &s.Socks.Reqs[i], reply: -1}
		rt.results = append(rt.results, r)
		wg.Add(1)
		go func() {
			defer wg.Done()
			rt.runRequest(r)
		}()
	}
	wg.Wait()
	time.Sleep(2 * time.Second) // let late datagrams land
	rt.judge()
	for _, m := range rt.cmux {
		m.Close()
	}
	rt.s5.Close()
	rt.mux.Close()
	w.Res.NonTrivial = w.checks.Load() > 0 && len(rt.results) > 0
	res.Completed = true
	finish(w)
}

func (rt *socksRT) isMieruEndpoint(addr string) bool {
	s := &rt.w.Spec.Server
	return addr == net.JoinHostPort(s.IP, fmt.Sprint(s.TCPPort)) || addr == net.JoinHostPort(s.IP, fmt.Sprint(s.UDPPort))
}

// startDestinations creates echo servers at public, loopback and private
// addresses, and a SOCKS5 egress proxy.
func (rt *socksRT) startDestinations() error {
	w := rt.w
	for _, ip := range destHosts {
		ip := ip
		node := w.Net.Node(ip)
		ln, err := node.Listen(context.Background(), "tcp", net.JoinHostPort(ip, fmt.Sprint(destTCPPort)))
		if err != nil {
			return err
		}
		go func() {
			for {
				c, err := ln.Accept()
				if err != nil {
					return
				}
				rt.mu.Lock()
				rt.arrivals = append(rt.arrivals, arrival{dest: ip, from: c.RemoteAddr().String(), kind: "tcp", atUs: w.nowUs()})
				rt.mu.Unlock()
				go func() { io.Copy(c, c); c.Close() }()
			}
		}()
		pc, err := node.ListenPacket(context.Background(), "udp", net.JoinHostPort(ip, fmt.Sprint(destUDPPort)))
		if err != nil {
			return err
		}
		go func() {
			buf := make([]byte, 1<<16)
			for {
				n, from, err := pc.ReadFrom(buf)
				if err != nil {
					return
				}
				rt.mu.Lock()
				rt.arrivals = append(rt.arrivals, arrival{dest: ip, from: from.String(), kind: "udp", payload: append([]byte(nil), buf[:n]...), atUs: w.nowUs()})
				rt.mu.Unlock()
				pc.WriteTo(buf[:n], from) // echo
			}
		}()
	}
	// egress SOCKS5 proxy: no-auth, CONNECT only, then echo
	pnode := w.Net.Node(proxyHost)
	pl, err := pnode.Listen(context.Background(), "tcp", net.JoinHostPort(proxyHost, fmt.Sprint(proxyPort)))
	if err != nil {
		return err
	}
	go func() {
		for {
			c, err := pl.Accept()
			if err != nil {
				return
			}
			go rt.egressProxyServe(c)
		}
	}()
	return nil
}

func (rt *socksRT) egressProxyServe(c net.Conn) {
	defer c.Close()
	var beh spec.EgressBehaviour
	if eb := rt.ss.Egress; len(eb) > 0 {
		rt.mu.Lock()
		beh = eb[rt.egressSeq%len(eb)]
		rt.egressSeq++
		rt.mu.Unlock()
	}
	abort := func() {
		if sc, ok := c.(*simnet.Conn); ok {
			sc.Reset()
		}
	}
	c.SetDeadline(time.Now().Add(30 * time.Second))
	hdr := make([]byte, 2)
	if _, err := io.ReadFull(c, hdr); err != nil {
		return
	}
	methods := make([]byte, hdr[1])
	if _, err := io.ReadFull(c, methods); err != nil {
		return
	}
	c.Write([]byte{5, 0})
	req := make([]byte, 4)
	if _, err := io.ReadFull(c, req); err != nil {
		return
	}
	var dst string
	switch req[3] {
	case 1:
		b := make([]byte, 6)
		io.ReadFull(c, b)
		dst = fmt.Sprintf("%s:%d", net.IP(b[:4]), binary.BigEndian.Uint16(b[4:]))
	case 4:
		b := make([]byte, 18)
		io.ReadFull(c, b)
		dst = fmt.Sprintf("[%s]:%d", net.IP(b[:16]), binary.BigEndian.Uint16(b[16:]))
	case 3:
		l := make([]byte, 1)
		io.ReadFull(c, l)
		b := make([]byte, int(l[0])+2)
		io.ReadFull(c, b)
		dst = fmt.Sprintf("%s:%d", b[:l[0]], binary.BigEndian.Uint16(b[l[0]:]))
	}
	rt.mu.Lock()
	rt.proxied = append(rt.proxied, dst)
	rt.arrivals = append(rt.arrivals, arrival{dest: proxyHost, from: c.RemoteAddr().String(), kind: "via-egress-proxy", payload: []byte(dst), atUs: rt.w.nowUs()})
	rt.mu.Unlock()
	if beh.Mode != "" {
		rt.w.fault("egress-proxy-" + beh.Mode)
	}
	switch beh.Mode {
	case "rst-before-reply":
		abort()
		return
	case "garbage-reply":
		c.Write([]byte{0x47, 0x45, 0x54, 0x20, 0x2f, 0x20, 0x48, 0x54, 0x54, 0x50, 0xff, 0xff, 0x00})
		return
	case "short-reply":
		c.Write([]byte{5, 0, 0, 1, 10})
		return
	case "bad-atyp-reply":
		c.Write([]byte{5, 0, 0, 9, 1, 2, 3, 4, 5, 6})
		return
	case "error-reply":
		c.Write([]byte{5, 5, 0, 1, 0, 0, 0, 0, 0, 0})
		return
	case "huge-domain-reply":
		b := []byte{5, 0, 0, 3, 255}
		for i := 0; i < 255; i++ {
			b = append(b, 'a')
		}
		c.Write(append(b, 0, 80))
	case "silent":
		c.SetDeadline(time.Time{})
		time.Sleep(40 * time.Second)
		return
	}
	endLater := func() {
		switch beh.Mode {
		case "rst-after-reply":
			time.AfterFunc(time.Duration(beh.ArgUs)*time.Microsecond, abort)
		case "fin-after-reply":
			time.AfterFunc(time.Duration(beh.ArgUs)*time.Microsecond, func() { c.Close() })
		}
	}
	if req[1] == 3 {
		// UDP ASSOCIATE: bind a relay socket and echo every datagram back to its sender
		pc, err := rt.w.Net.Node(proxyHost).ListenPacket(context.Background(), "udp", net.JoinHostPort(proxyHost, "0"))
		if err != nil {
			c.Write([]byte{5, 1, 0, 1, 0, 0, 0, 0, 0, 0})
			return
		}
		defer pc.Close()
		port := pc.LocalAddr().(*net.UDPAddr).Port
		ip := net.ParseIP(proxyHost).To4()
		if beh.Mode != "huge-domain-reply" {
			c.Write([]byte{5, 0, 0, 1, ip[0], ip[1], ip[2], ip[3], byte(port >> 8), byte(port)})
		}
		endLater()
		go func() {
			buf := make([]byte, 65536)
			for {
				n, from, err := pc.ReadFrom(buf)
				if err != nil {
					return
				}
				rt.w.probe("egress-proxy-relayed-datagram")
				pc.WriteTo(buf[:n], from)
			}
		}()
		c.SetDeadline(time.Time{})
		io.Copy(io.Discard, c) // the association lives as long as the control connection
		return
	}
	if beh.Mode != "huge-domain-reply" {
		c.Write([]byte{5, 0, 0, 1, 0, 0, 0, 0, 0, 0})
	}
	endLater()
	c.SetDeadline(time.Time{})
	io.Copy(c, c)
}

// startServer builds the production server stack as pkg/appctl does.
func (rt *socksRT) startServer() error {
	w := rt.w
	s := &w.Spec.Server
	mux := protocol.NewMux(false)
	mux.SetStreamListenerFactory(rt.srvHost.node)
	mux.SetPacketListenerFactory(rt.srvHost.node)
	tp, err := trafficpattern.NewConfig(toPattern(s.Pattern))
	if err != nil {
		return err
	}
	users := appctlcommon.UserListToMap(toUsers(s.Users))
	mux.SetTrafficPattern(tp).SetServerUsers(users).SetServerUserHintIsMandatory(s.HintMandatory)
	mtu := common.DefaultMTU
	if s.MTU != 0 {
		mtu = s.MTU
	}
	cfg := serverConfigPB(s)
	endpoints, err := appctlcommon.PortBindingsToUnderlayProperties(cfg.GetPortBindings(), mtu)
	if err != nil {
		return err
	}
	mux.SetEndpoints(endpoints)
	if err := mux.Start(); err != nil {
		return err
	}
	eg := &appctlpb.Egress{}
	for _, r := range rt.ss.Rules {
		er := &appctlpb.EgressRule{IpRanges: r.IPRanges, DomainNames: r.Domains}
		switch r.Action {
		case "PROXY":
			er.Action = appctlpb.EgressAction_PROXY.Enum()
			er.ProxyNames = []string{"p1"}
		case "REJECT":
			er.Action = appctlpb.EgressAction_REJECT.Enum()
		default:
			er.Action = appctlpb.EgressAction_DIRECT.Enum()
		}
		eg.Rules = append(eg.Rules, er)
	}
	eg.Proxies = []*appctlpb.EgressProxy{{Name: proto.String("p1"), Protocol: appctlpb.ProxyProtocol_SOCKS5_PROXY_PROTOCOL.Enum(), Host: proto.String(proxyHost), Port: proto.Int32(proxyPort)}}
	s5, err := socks5.New(&socks5.Config{
		AuthOpts:         socks5.Auth{ClientSideAuthentication: true},
		Egress:           eg,
		HandshakeTimeout: 10 * time.Second,
		Resolver:         simResolver{},
		Users:            users,
	})
	if err != nil {
		return err
	}
	rt.mux, rt.s5 = mux, s5
	go s5.Serve(mux)
	return nil
}

func (rt *socksRT) startClient(i int) error {
	w := rt.w
	c := &w.Spec.Clients[i]
	node := w.Net.Node(c.IP)
	m, err := appctlcommon.NewClientMuxFromProfile(clientProfilePB(w.Spec, c, i), node, simnet.PacketDialer{Node: node}, nil, nil)
	if err != nil {
		return err
	}
	rt.cmux = append(rt.cmux, m)
	return nil
}

func encodeAddr(atype int, host string, port int) []byte {
	var b []byte
	switch atype {
	case 1:
		ip := net.ParseIP(host).To4()
		if ip == nil {
			ip = net.IPv4zero.To4()
		}
		b = append([]byte{1}, ip...)
	case 4:
		ip := net.ParseIP(host).To16()
		if ip == nil {
			ip = net.IPv6zero
		}
		b = append([]byte{4}, ip...)
	default:
		b = append([]byte{3, byte(len(host))}, host...)
	}
	return append(b, byte(port>>8), byte(port))
}

func readSocksReply(c net.Conn) (int, []byte, error) {
	hdr := make([]byte, 4)
	if _, err := io.ReadFull(c, hdr); err != nil {
		return -1, nil, err
	}
	var rest int
	switch hdr[3] {
	case 1:
		rest = 6
	case 4:
		rest = 18
	case 3:
		l := make([]byte, 1)
		if _, err := io.ReadFull(c, l); err != nil {
			return int(hdr[1]), nil, err
		}
		rest = int(l[0]) + 2
	default:
		return int(hdr[1]), nil, fmt.Errorf("bad atype %d in reply", hdr[3])
	}
	b := make([]byte, rest)
	if _, err := io.ReadFull(c, b); err != nil {
		return int(hdr[1]), nil, err
	}
	return int(hdr[1]), b, nil
}

func dgramPayload(seed uint64, reqIdx, i int, d *spec.SDgram) []byte {
	b := make([]byte, d.Size)
	switch d.Fill {
	case 1:
	case 2:
		for k := range b {
			b[k] = 0xff
		}
	case 3:
		for k := range b {
			if k%2 == 1 {
				b[k] = 0xff
			}
		}
	default:
		newPRF(seed, 5000+reqIdx, i).Fill(b, 0)
	}
	// identity tag so that a destination can attribute every datagram
	if len(b) >= 8 {
		binary.BigEndian.PutUint32(b[0:], uint32(0xC0DE0000|reqIdx))
		binary.BigEndian.PutUint32(b[4:], uint32(i))
	}
	return b
}

func (rt *socksRT) runRequest(r *reqResult) {
	w := rt.w
	req := r.req
	defer func() { r.finished = true }()
	if d := time.Duration(req.AtUs)*time.Microsecond - time.Since(w.start); d > 0 {
		time.Sleep(d)
	}
	ctx, cancel := context.WithTimeout(context.Background(), 30*time.Second)
	defer cancel()
	conn, err := rt.cmux[req.Client%len(rt.cmux)].DialContext(ctx)
	if err != nil {
		r.err = "mux dial: " + err.Error()
		return
	}
	defer conn.Close()
	raw := req.Raw
	if raw == nil {
		raw = append([]byte{5, byte(req.Cmd), 0}, encodeAddr(req.AType, req.Host, req.Port)...)
	}
	if _, err := conn.Write(raw); err != nil {
		r.err = "write request: " + err.Error()
		return
	}
	conn.SetReadDeadline(time.Now().Add(15 * time.Second))
	rep, _, err := readSocksReply(conn)
	r.reply = rep
	if err != nil {
		r.err = "read reply: " + err.Error()
		return
	}
	if rep != 0 {
		return
	}
	conn.SetReadDeadline(time.Time{})
	idx := 0
	for i := range rt.results {
		if rt.results[i] == r {
			idx = i
		}
	}
	switch req.Cmd {
	case 1:
		if req.Data <= 0 {
			return
		}
		prf := newPRF(w.Spec.Seed, 4000+idx, 0)
		out := prf.Bytes(0, req.Data)
		go conn.Write(out)
		in := make([]byte, req.Data)
		conn.SetReadDeadline(time.Now().Add(20 * time.Second))
		if _, err := io.ReadFull(conn, in); err != nil {
			r.err = "echo read: " + err.Error()
			return
		}
		r.echoOK = bytes.Equal(in, out)
	case 3:
		tun := apicommon.NewPacketOverStreamTunnel(conn)
		var rwg sync.WaitGroup
		expectReplies := 0
		for _, d := range req.Dgrams {
			if d.Malformed == "" {
				expectReplies++
			}
		}
		rwg.Add(1)
		go func() {
			defer rwg.Done()
			bs := rt.ss.ReadBuf
			if bs <= 0 {
				bs = 1 << 16
			}
			buf := make([]byte, bs)
			wrapper := apicommon.NewUDPAssociateWrapper(tun)
			for len(r.replies) < expectReplies {
				conn.SetReadDeadline(time.Now().Add(4 * time.Second))
				if req.Wrapper {
					n, from, err := wrapper.ReadFrom(buf)
					if err != nil {
						r.tunErr = err.Error()
						if !isTimeout(err) {
							r.wrapErr = err.Error()
						}
						return
					}
					ua, _ := from.(*net.UDPAddr)
					hdr := []byte{0, 0, 0}
					if ua != nil {
						at := 1
						if ua.IP.To4() == nil {
							at = 4
						}
						hdr = append(hdr, encodeAddr(at, ua.IP.String(), ua.Port)...)
					}
					r.replies = append(r.replies, udpReply{header: hdr, payload: append([]byte(nil), buf[:n]...)})
					continue
				}
				n, err := tun.Read(buf)
				if err != nil {
					r.tunErr = err.Error()
					return
				}
				pkt := append([]byte(nil), buf[:n]...)
				hl := socksUDPHeaderLen(pkt)
				if hl < 0 {
					r.replies = append(r.replies, udpReply{header: pkt})
					continue
				}
				r.replies = append(r.replies, udpReply{header: pkt[:hl], payload: pkt[hl:]})
			}
		}()
		r.sent = make([][]byte, len(req.Dgrams))
		for i := range req.Dgrams {
			d := &req.Dgrams[i]
			if d.GapUs > 0 {
				time.Sleep(time.Duration(d.GapUs) * time.Microsecond)
			}
			payload := dgramPayload(w.Spec.Seed, idx, i, d)
			pkt := append(append([]byte{0, 0, 0}, encodeAddr(d.AType, d.Host, d.Port)...), payload...)
			switch d.Malformed {
			case "":
				var err error
				if ip := net.ParseIP(d.Host); req.Wrapper && ip != nil && len(pkt) <= 65535 {
					_, err = apicommon.NewUDPAssociateWrapper(tun).WriteTo(payload, &net.UDPAddr{IP: ip, Port: d.Port})
				} else if len(d.SplitAt) > 0 && len(pkt) <= 65535 {
					frame := make([]byte, 0, 4+len(pkt))
					frame = append(frame, 0, byte(len(pkt)>>8), byte(len(pkt)))
					frame = append(append(frame, pkt...), 0xff)
					prev := 0
					for _, cut := range append(append([]int{}, d.SplitAt...), len(frame)) {
						if cut <= prev || cut > len(frame) {
							continue
						}
						if _, err = conn.Write(frame[prev:cut]); err != nil {
							break
						}
						prev = cut
						w.probe("tunnel-frame-written-in-pieces")
						time.Sleep(time.Millisecond)
					}
				} else {
					_, err = tun.Write(pkt)
				}
				if len(pkt) > 65535 {
					// an oversized datagram must be reported as an error, and must not disturb the stream
					w.addCheck(1)
					w.probe("tunnel-oversized-datagram")
					if err == nil {
						w.violate("C18", "oversized-datagram-not-reported", "association %d: a %d-byte packet (frame limit 65535) was accepted by PacketOverStreamTunnel.Write without error", idx, len(pkt))
					}
					continue
				}
				if err != nil {
					r.err = "tunnel write: " + err.Error()
					rwg.Wait()
					return
				}
				r.sent[i] = payload
			case "frag":
				pkt[2] = 1
				tun.Write(pkt)
			case "short-header":
				tun.Write(pkt[:5])
			default:
				// raw frame with a broken marker / truncated body, written straight onto the session
				frame := make([]byte, 4+len(pkt))
				frame[0] = 0
				binary.BigEndian.PutUint16(frame[1:], uint16(len(pkt)))
				copy(frame[3:], pkt)
				frame[3+len(pkt)] = 0xff
				switch d.Malformed {
				case "bad-prefix":
					frame[0] = 0x01
				case "bad-suffix":
					frame[len(frame)-1] = 0x00
				case "truncated":
					frame = frame[:len(frame)-1-len(pkt)/2]
				}
				conn.Write(frame)
			}
		}
		rwg.Wait()
		// let the tail of the stream reach the server before the session is closed
		// (over a lossy carrier that takes a few retransmission rounds)
		if w.datagramFaultsConfigured() {
			time.Sleep(25 * time.Second)
		} else {
			time.Sleep(time.Second)
		}
	}
}

// socksUDPHeaderLen returns the length of the SOCKS5 UDP header of pkt, or -1.
func socksUDPHeaderLen(pkt []byte) int {
	if len(pkt) < 4 || pkt[0] != 0 || pkt[1] != 0 {
		return -1
	}
	switch pkt[3] {
	case 1:
		if len(pkt) >= 10 {
			return 10
		}
	case 4:
		if len(pkt) >= 22 {
			return 22
		}
	case 3:
		if len(pkt) >= 5 && len(pkt) >= 7+int(pkt[4]) {
			return 7 + int(pkt[4])
		}
	}
	return -1
}

// expectedAction is the reference decision for a destination: the user's
// grants first, then the egress rules in order (first match wins).
func (rt *socksRT) expectedAction(u spec.User, atype int, host string) (string, string) {
	ip, class := osInterpret(host)
	if atype == 3 {
		if _, known := osHosts[strings.TrimSuffix(strings.ToLower(host), ".")]; !known && host != "" {
			class = "unresolvable"
		}
	}
	switch class {
	case "loopback":
		if !u.AllowLoopback {
			return "REJECT", class
		}
	case "private":
		if !u.AllowPrivate {
			return "REJECT", class
		}
	}
	for _, r := range rt.ss.Rules {
		match := false
		if atype != 3 && ip != nil {
			reqIP := net.ParseIP(host)
			for _, cidr := range r.IPRanges {
				if cidr == "*" {
					match = true
				} else if _, n, err := net.ParseCIDR(cidr); err == nil && n.Contains(reqIP) {
					match = true
				}
			}
		} else if atype == 3 && host != "" {
			for _, d := range r.Domains {
				if d == "*" || host == d || strings.HasSuffix(host, "."+d) {
					match = true
				}
			}
		}
		if match {
			return r.Action, class
		}
	}
	return "DIRECT", class
}

func (rt *socksRT) judge() {
	w := rt.w
	s := w.Spec
	rt.mu.Lock()
	arrivals := append([]arrival(nil), rt.arrivals...)
	rt.mu.Unlock()
	rt.srvHost.mu.Lock()
	dials := append([]dialRec(nil), rt.srvHost.dials...)
	dgrams := append([]dialRec(nil), rt.srvHost.dgrams...)
	rt.srvHost.mu.Unlock()
	prop := s.Property

	// who may reach what: if no user of this run has a grant for a class, nothing
	// at all may arrive at a destination of that class
	anyLoop, anyPriv := false, false
	for _, c := range s.Clients {
		u := s.Server.Users[c.User]
		anyLoop = anyLoop || u.AllowLoopback
		anyPriv = anyPriv || u.AllowPrivate
	}
	w.addCheck(1)
	for _, d := range append(append([]dialRec(nil), dials...), dgrams...) {
		if d.ip == proxyHost {
			continue
		}
		if (d.class == "loopback" && !anyLoop) || (d.class == "private" && !anyPriv) {
			kind := "connection"
			if d.port == destUDPPort {
				kind = "datagram"
			}
			w.violate("C12", "reached-"+d.class+"-without-grant:"+kind+":"+encodingOf(d.raw), "the proxy server opened a %s to %q (the operating system reaches %s, a %s address) although no user in this run is allowed %s destinations", kind, d.raw, d.ip, d.class, d.class)
		}
	}
	for i, r := range rt.results {
		req := r.req
		u := s.Server.Users[s.Clients[req.Client%len(s.Clients)].User]
		w.addCheck(1)
		w.probe(fmt.Sprintf("socks-req-cmd%d-atype%d", req.Cmd, req.AType))
		if req.Raw != nil {
			w.probe("socks-raw-request")
			continue // only survival matters for malformed requests
		}
		action, class := rt.expectedAction(u, req.AType, req.Host)
		w.probe("socks-expected-" + action + "-" + class)
		if prop == "C12" || w.wantsOracle("C12") {
			switch action {
			case "REJECT":
				if r.reply != 2 {
					w.violate("C12", "not-refused:"+class+":"+encodingOf(req.Host), "request %d (cmd %d, atype %d, host %q) by user %s (allowPrivate=%v allowLoopback=%v): expected reply 2 (not allowed by ruleset), got reply %d err %q", i, req.Cmd, req.AType, req.Host, u.Name, u.AllowPrivate, u.AllowLoopback, r.reply, r.err)
				}
			case "DIRECT":
				if class != "unresolvable" && r.reply == 2 {
					w.violate("C12", "refused-although-allowed:"+class, "request %d (cmd %d, atype %d, host %q) by user %s (allowPrivate=%v allowLoopback=%v) was refused with reply 2", i, req.Cmd, req.AType, req.Host, u.Name, u.AllowPrivate, u.AllowLoopback)
				}
				if req.Cmd == 1 && class != "unresolvable" && req.Data > 0 && r.reply == 0 && !r.echoOK {
					w.violate("C12", "allowed-connect-broken", "request %d to %q was accepted but the echo did not come back intact: %s", i, req.Host, r.err)
				}
			case "PROXY":
				if req.Cmd == 1 {
					found := false
					rt.mu.Lock()
					for _, p := range rt.proxied {
						ph, _, _ := net.SplitHostPort(p)
						if a, b := net.ParseIP(ph), net.ParseIP(req.Host); a != nil && b != nil && a.Equal(b) {
							found = true
						} else if ph == req.Host {
							found = true
						}
					}
					rt.mu.Unlock()
					if !found {
						w.violate("C12", "egress-rule-not-applied:PROXY", "request %d to %q matches a PROXY rule first but the egress proxy never saw it (reply %d, err %q)", i, req.Host, r.reply, r.err)
					}
				}
			}
		}
		if req.Cmd == 3 && r.reply == 0 {
			rt.judgeAssociation(i, r, u, arrivals)
		}
	}
	sort.Strings(w.Res.States)
}

func encodingOf(host string) string {
	h := host
	if hh, _, err := net.SplitHostPort(host); err == nil {
		h = hh
	}
	switch {
	case h == "":
		return "empty-host"
	case net.ParseIP(h) != nil && net.ParseIP(h).IsUnspecified():
		return "unspecified-address"
	case net.ParseIP(h) != nil:
		return "ip-literal"
	case h != strings.ToLower(h):
		return "mixed-case-name"
	default:
		return "name"
	}
}

// judgeAssociation: C18 (and the per-datagram half of C12) for one UDP association.
func (rt *socksRT) judgeAssociation(idx int, r *reqResult, u spec.User, arrivals []arrival) {
	w := rt.w
	req := r.req
	// datagrams that carry this association's tag, by destination, in arrival order
	got := map[string][][]byte{}
	for _, a := range arrivals {
		if a.kind != "udp" || len(a.payload) < 8 {
			if a.kind == "udp" && len(a.payload) < 8 {
				// short payloads cannot carry a tag: attribute by exact match below
				got[a.dest+"/short"] = append(got[a.dest+"/short"], a.payload)
			}
			continue
		}
		if binary.BigEndian.Uint32(a.payload[0:]) == uint32(0xC0DE0000|idx) && len(a.payload) <= 65507 {
			got[a.dest] = append(got[a.dest], a.payload)
		}
	}
	// what each destination should have received, in order. After a malformed frame the
	// association may legitimately end (or carry on): later datagrams may arrive or not, but
	// what does arrive must still be intact, in order and not duplicated.
	type wantDgram struct {
		payload  []byte
		optional bool
	}
	want := map[string][]wantDgram{}
	rejected := map[string]bool{} // destinations this user may not reach: judged by C12 only
	stopped := false
	for i := range req.Dgrams {
		d := &req.Dgrams[i]
		if d.Malformed != "" {
			stopped = true
			continue
		}
		action, class := rt.expectedAction(u, d.AType, d.Host)
		ip, _ := osInterpret(d.Host)
		w.addCheck(1)
		if ip == nil {
			continue
		}
		if action == "REJECT" {
			rejected[ip.String()] = true
		}
		if (class == "loopback" && !u.AllowLoopback) || (class == "private" && !u.AllowPrivate) {
			// C12: must not be relayed (the grant decides; egress rules are promised for requests)
			for _, p := range got[ip.String()] {
				if len(p) >= 8 && int(binary.BigEndian.Uint32(p[4:])) == i {
					w.violate("C12", "datagram-relayed-to-"+class+"-without-grant:"+encodingOf(d.Host), "association %d: datagram %d addressed to %q (%s) was relayed for user %s who has no grant", idx, i, d.Host, class, u.Name)
				}
			}
			if d.Size < 8 && len(got[ip.String()+"/short"]) > 0 {
				w.violate("C12", "datagram-relayed-to-"+class+"-without-grant:"+encodingOf(d.Host), "association %d: a short datagram addressed to %q (%s) was relayed for user %s who has no grant", idx, d.Host, class, u.Name)
			}
			continue
		}
		if r.sent[i] == nil || d.Size > 65507 {
			continue // not sent, or larger than any UDP datagram: delivery is not demanded
		}
		key := ip.String()
		if d.Size < 8 {
			key += "/short"
		}
		want[key] = append(want[key], wantDgram{r.sent[i], stopped})
	}
	if rt.w.Spec.Property != "C18" && !w.wantsOracle("C18") {
		return
	}
	for dest, gs := range got {
		if _, ok := want[dest]; !ok && !rejected[dest] && !strings.HasSuffix(dest, "/short") && len(gs) > 0 {
			want[dest] = nil // judged below: everything that arrived there is unexpected
		}
	}
	for dest, ws := range want {
		gs := got[dest]
		w.addCheck(1)
		if strings.HasSuffix(dest, "/short") {
			// untagged: compare as multisets restricted to what this association sent
			need := 0
			for _, x := range ws {
				if !x.optional {
					need++
				}
			}
			if len(gs) < need {
				w.violate("C18", "datagram-lost-in-tunnel", "association %d: destination %s received %d short datagrams, %d were sent", idx, dest, len(gs), need)
			}
			continue
		}
		k := 0
		bad := false
		for gi, g := range gs {
			for k < len(ws) && !bytes.Equal(ws[k].payload, g) && ws[k].optional {
				k++
			}
			if k < len(ws) && bytes.Equal(ws[k].payload, g) {
				k++
				continue
			}
			// g is not the next expected datagram: work out what it is for the report
			bad = true
			idxOf := -1
			for j := range ws {
				if bytes.Equal(ws[j].payload, g) {
					idxOf = j
				}
			}
			switch {
			case idxOf >= 0 && idxOf < k:
				w.violate("C18", "datagram-count-differs", "association %d: destination %s received datagram #%d of this association again or out of order (arrival %d of %d; %d were sent)", idx, dest, idxOf, gi, len(gs), len(ws))
			case idxOf >= k:
				w.violate("C18", "datagram-count-differs", "association %d: destination %s: arrival %d is datagram #%d although #%d, sent earlier and well formed, has not arrived (dropped or reordered by the tunnel)", idx, dest, gi, idxOf, k)
			default:
				if len(g) >= 8 && int(binary.BigEndian.Uint32(g[4:])) < len(req.Dgrams) && req.Dgrams[int(binary.BigEndian.Uint32(g[4:]))].Malformed == "" {
					w.violate("C18", "datagram-altered-or-reordered", "association %d: destination %s arrival %d: %d bytes (tag %x) matches nothing that was sent there", idx, dest, gi, len(g), clip(g, 8))
				} else {
					w.violate("C18", "garbage-datagram-delivered", "association %d: destination %s arrival %d: %d bytes (tag %x) comes from a malformed frame or from nothing that was sent", idx, dest, gi, len(g), clip(g, 8))
				}
			}
			break
		}
		if bad {
			continue
		}
		for ; k < len(ws); k++ {
			if !ws[k].optional {
				w.violate("C18", "datagram-count-differs", "association %d: destination %s received %d datagrams of this association; well-formed datagram #%d of %d sent there never arrived (merged, split or dropped by the tunnel)", idx, dest, len(gs), k, len(ws))
				break
			}
		}
	}
	// any datagram carrying this association's tag at a destination it was not addressed to
	for dest, gs := range got {
		if strings.HasSuffix(dest, "/short") {
			continue
		}
		for _, p := range gs {
			i := int(binary.BigEndian.Uint32(p[4:]))
			if i >= len(req.Dgrams) {
				w.violate("C18", "garbage-datagram-delivered", "association %d: destination %s received a datagram with an impossible index %d", idx, dest, i)
				continue
			}
			ip, _ := osInterpret(req.Dgrams[i].Host)
			if ip == nil || ip.String() != dest {
				w.violate("C18", "datagram-sent-to-wrong-destination", "association %d: datagram %d addressed to %q arrived at %s", idx, i, req.Dgrams[i].Host, dest)
			}
		}
	}
	// replies: every reply's header names the replying host (or the name the client used for it)
	for k, rep := range r.replies {
		w.addCheck(1)
		if len(rep.payload) < 8 {
			continue
		}
		if binary.BigEndian.Uint32(rep.payload[0:]) != uint32(0xC0DE0000|idx) {
			w.violate("C18", "reply-from-another-association", "association %d: reply %d carries a foreign tag %x", idx, k, clip(rep.payload, 8))
			continue
		}
		i := int(binary.BigEndian.Uint32(rep.payload[4:]))
		if i >= len(req.Dgrams) {
			continue
		}
		d := &req.Dgrams[i]
		ip, _ := osInterpret(d.Host)
		// the header must name the replying host: its address, or a name that resolves to it
		hh, hp, ok := decodeSocksUDPHeader(rep.header)
		hip, _ := osInterpret(hh)
		if !ok || hp != d.Port || ip == nil || hip == nil || !hip.Equal(ip) {
			w.violate("C18", "reply-header-names-wrong-host", "association %d: the echo of datagram %d (sent to %q port %d, host %v) came back with header % x", idx, i, d.Host, d.Port, ip, rep.header)
		}
		if r.sent[i] == nil {
			continue
		}
		if rt.ss.ReadBuf > 0 && len(rep.payload) < len(r.sent[i]) {
			// a datagram socket hands out what fits the caller's buffer: the prefix must be right
			if !bytes.Equal(rep.payload, r.sent[i][:len(rep.payload)]) {
				w.violate("C18", "reply-payload-altered", "association %d: the truncated echo of datagram %d is not a prefix of what was sent", idx, i)
			}
			continue
		}
		if !bytes.Equal(rep.payload, r.sent[i]) {
			w.violate("C18", "reply-payload-altered", "association %d: the echo of datagram %d differs from what was sent (%d vs %d bytes)", idx, i, len(rep.payload), len(r.sent[i]))
		}
	}
	if req.Wrapper && r.wrapErr != "" && !stopped && rt.ss.ReadBuf == 0 {
		cls := "other"
		if r.wrapErr == "EOF" {
			cls = "empty-datagram-reported-as-EOF"
		}
		w.violate("C18", "wrapper-read-error:"+cls, "association %d: UDPAssociateWrapper.ReadFrom returned %q although every frame was well formed and the buffer was large enough (replies read so far: %d)", idx, r.wrapErr, len(r.replies))
	}
	// an error from the tunnel reader is fine after a malformed frame or with a small
	// buffer; "EOF" for an empty datagram is not an error condition of the stream
	if r.tunErr != "" && !stopped && rt.ss.ReadBuf == 0 && !strings.Contains(r.tunErr, "timeout") && !strings.Contains(r.tunErr, "TIMEOUT") {
		w.probe("tunnel-read-error-without-fault")
	}
}

// decodeSocksUDPHeader returns host and port named by a SOCKS5 UDP header.
func decodeSocksUDPHeader(h []byte) (string, int, bool) {
	if len(h) < 4 || h[0] != 0 || h[1] != 0 || h[2] != 0 {
		return "", 0, false
	}
	switch h[3] {
	case 1:
		if len(h) == 10 {
			return net.IP(h[4:8]).String(), int(binary.BigEndian.Uint16(h[8:])), true
		}
	case 4:
		if len(h) == 22 {
			return net.IP(h[4:20]).String(), int(binary.BigEndian.Uint16(h[20:])), true
		}
	case 3:
		if len(h) >= 5 && len(h) == 7+int(h[4]) {
			return string(h[5 : 5+int(h[4])]), int(binary.BigEndian.Uint16(h[5+int(h[4]):])), true
		}
	}
	return "", 0, false
}

package sim

import (
	"encoding/hex"
	"fmt"
	"net"
	"sort"
	"strings"
	"time"

	"github.com/anishathalye/porcupine"
	"github.com/enfein/mieru/v3/pkg/appctl/appctlpb"
	"github.com/enfein/mieru/v3/pkg/protocol/serveruser"
	"google.golang.org/protobuf/proto"

	"verifsim/refproto"
	"verifsim/simnet"
	"verifsim/spec"
)

func init() { scenarios["registry"] = scenRegistry }

// coop is a cooperative scheduler: actors run one at a time; at every yield
// site inside the registry (hook H2) and between operations the running actor
// hands control back and the next actor is chosen from the seed. Interleavings
// are therefore exact and replayable.
type coop struct {
	seed   uint64
	step   uint64
	actors []*coopActor
	cur    *coopActor
	back   chan struct{}
	sites  map[string]int
}

type coopActor struct {
	id        int
	resume    chan struct{}
	done      bool
	inOp      bool   // inside a registry operation (parked at one of its yield sites)
	lastTried uint64 // scheduler step at which the actor last came back from a "discover.tried" yield
}

// othersIdle: no other actor is in the middle of a registry operation.
func (c *coop) othersIdle(me *coopActor) bool {
	for _, a := range c.actors {
		if a != me && !a.done && a.inOp {
			return false
		}
	}
	return true
}

func (c *coop) yield(site string) {
	a := c.cur
	if a == nil {
		return
	}
	c.sites[site]++
	c.back <- struct{}{}
	<-a.resume
	if site == "discover.tried" {
		a.lastTried = c.step
	}
}

func (c *coop) run() {
	for {
		var live []*coopActor
		for _, a := range c.actors {
			if !a.done {
				live = append(live, a)
			}
		}
		if len(live) == 0 {
			return
		}
		a := live[simnet.H(c.seed, "coop", c.step)%uint64(len(live))]
		c.step++
		c.cur = a
		a.resume <- struct{}{}
		<-c.back
	}
}

type regOp struct {
	actor     int
	op        spec.ROp
	call, ret uint64
	ok        bool
	user      string
}

type regIn struct {
	kind string
	set  int
	on   bool
	seg  int
}
type regOut struct {
	ok   bool
	user string
}
type regState struct {
	set int
	on  bool
}

func scenRegistry(s *spec.RunSpec, res *spec.RunResult, finish func(*World)) {
	w := &World{Spec: s, Res: res, sessions: map[string]*sessRT{}, probes: map[string]int{}, faults: map[string]int{}, states: map[string]struct{}{}, userUp: map[string]int64{}, userDown: map[string]int64{}}
	w.start = time.Now()
	rs := s.Reg
	end := func() {
		res.Completed = true
		res.NonTrivial = w.checks.Load() > 0
		res.VirtualUs = w.nowUs()
		for k, v := range w.probes {
			res.Probes[k] += v
		}
		res.Checks = w.checks.Load()
		res.EventHash = fmt.Sprintf("%016x", w.histHash)
		res.Events = w.histEvents
		for k := range w.states {
			res.States = append(res.States, k)
		}
		sort.Strings(res.States)
		writeResultAndExit(res)
	}
	if rs == nil {
		res.Harness = append(res.Harness, "registry scenario without spec")
		end()
	}
	credOf := func(i int) refproto.Cred {
		u := rs.Universe[i]
		if u.ShareWith >= 0 {
			return refproto.Cred{User: rs.Universe[u.ShareWith].Name, Password: rs.Universe[u.ShareWith].Password}
		}
		return refproto.Cred{User: u.Name, Password: u.Password}
	}
	toMap := func(set []int) map[string]*appctlpb.User {
		m := map[string]*appctlpb.User{}
		for _, i := range set {
			u := rs.Universe[i]
			pu := &appctlpb.User{Name: proto.String(u.Name)}
			if u.ShareWith >= 0 {
				h := refproto.HashedPassword(credOf(i))
				pu.HashedPassword = proto.String(hex.EncodeToString(h[:]))
			} else {
				pu.Password = proto.String(u.Password)
			}
			m[u.Name] = pu
		}
		return m
	}
	// sources, incl. addresses that collide with source 0 in the cache
	var sources []serveruser.Source
	base := uint32(0)
	next := 0
	for i, sa := range rs.Sources {
		ip := net.ParseIP(sa)
		if sa == "collide" {
			for ; next < 1<<20; next++ {
				cand := net.IPv4(100, byte(next>>16), byte(next>>8), byte(next))
				if b, ok := serveruser.VerifBucketIndex(&net.TCPAddr{IP: cand}); ok && b == base {
					ip = cand
					next++
					w.probe("colliding-source-found")
					break
				}
			}
		}
		if ip == nil {
			ip = net.IPv4(10, 9, 9, byte(i+1))
		}
		if i == 0 {
			base, _ = serveruser.VerifBucketIndex(&net.TCPAddr{IP: ip})
		}
		sources = append(sources, serveruser.SourceFromAddr(&net.TCPAddr{IP: ip, Port: 1000 + i}))
	}
	// first segments (nonce + encrypted metadata), built by the reference codec at
	// the instant they are presented (key slot and timestamp must be fresh)
	segNonce := func(i int) [24]byte {
		var nonce [24]byte
		for j := range nonce {
			nonce[j] = byte(simnet.H(s.Seed, "regnonce", uint64(i), uint64(j)))
		}
		return nonce
	}
	buildSeg := func(i int) []byte {
		sg := rs.Segs[i]
		now := time.Now().Unix()
		cred := refproto.Cred{User: "nobody", Password: fmt.Sprintf("nokey-%d", i)}
		if sg.Cred >= 0 {
			cred = credOf(sg.Cred)
		}
		key := refproto.KeyForSlot(refproto.HashedPassword(cred), refproto.SlotOf(now))
		nonce := segNonce(i)
		hintName := ""
		switch {
		case sg.Hint >= 0:
			hintName = rs.Universe[sg.Hint].Name
		case sg.Hint == -1:
			hintName = "no-such-user"
		}
		m := refproto.Meta{Type: refproto.TypeOpenReq, TimestampMin: uint32(now / 60), SessionID: uint32(100 + i), Seq: 0}
		b, err := refproto.EncodeDatagram(key, hintName, nonce, m, nil, refproto.EncodeOpts{})
		if err != nil {
			w.harness("encode seg: %v", err)
			return make([]byte, refproto.NonceLen+refproto.EncMetaLen)
		}
		return b[:refproto.NonceLen+refproto.EncMetaLen]
	}
	// reference decision: who may authenticate segment g under set v with flag m
	expected := func(v int, mand bool, g int) map[string]bool {
		sg := rs.Segs[g]
		out := map[string]bool{}
		if sg.Cred < 0 {
			out["<reject>"] = true
			return out
		}
		want := refproto.HashedPassword(credOf(sg.Cred))
		var cands []string
		for _, i := range rs.Sets[v] {
			if refproto.HashedPassword(credOf(i)) == want {
				cands = append(cands, rs.Universe[i].Name)
			}
		}
		// the users the hint names: every user of the set whose 4-byte hint under this
		// segment's nonce equals the hint the segment carries (two names may collide)
		named := map[string]bool{}
		if sg.Hint >= 0 || sg.Hint == -1 {
			hn := "no-such-user"
			if sg.Hint >= 0 {
				hn = rs.Universe[sg.Hint].Name
			}
			np := segNonce(g)
			want4 := refproto.UserHint(hn, np[:])
			for _, i := range rs.Sets[v] {
				if refproto.UserHint(rs.Universe[i].Name, np[:]) == want4 {
					named[rs.Universe[i].Name] = true
				}
			}
		}
		for _, c := range cands {
			if named[c] {
				out[c] = true // a user named by the hint wins
			}
		}
		if len(out) > 0 {
			return out
		}
		if mand || len(cands) == 0 {
			out["<reject>"] = true
			return out
		}
		for _, c := range cands {
			out[c] = true
		}
		return out
	}

	var reg serveruser.Registry
	reg.SetUsers(toMap(rs.Sets[0]))
	reg.SetHintMandatory(rs.Mandatory)
	c := &coop{seed: s.Seed, back: make(chan struct{}), sites: map[string]int{}}
	serveruser.VerifYield = c.yield
	togglesMandatory := false
	for _, ops := range rs.Actors {
		for _, op := range ops {
			if op.Op == "mandatory" {
				togglesMandatory = true
			}
		}
	}
	var history []*regOp
	for ai, ops := range rs.Actors {
		a := &coopActor{id: ai, resume: make(chan struct{})}
		c.actors = append(c.actors, a)
		ops := ops
		go func() {
			<-a.resume
			for _, op := range ops {
				rec := &regOp{actor: a.id, op: op, call: c.step}
				switch op.Op {
				case "sleep":
					// the clock may only jump while no operation is in flight: a Discover
					// does not take minutes in reality, and its segment would go stale
					for !c.othersIdle(a) {
						c.yield("sleep-wait")
					}
					time.Sleep(time.Duration(op.Us) * time.Microsecond)
					c.yield("op-boundary")
					continue
				case "setusers":
					a.inOp = true
					reg.SetUsers(toMap(rs.Sets[op.Set%len(rs.Sets)]))
					rec.ok = true
				case "mandatory":
					reg.SetHintMandatory(op.On)
					rec.ok = true
				case "discover":
					a.inOp = true
					g := op.Seg % len(rs.Segs)
					src := sources[op.Source%len(sources)]
					block, _, auth, err := reg.Discover(buildSeg(g), src, op.Current)
					if err == nil && block != nil {
						rec.ok = true
						rec.user = block.BlockContext().UserName
						if auth.Policy().Name() != rec.user {
							w.violate("C07", "policy-of-another-user", "discover of segment %d: cipher user %q but policy %q", g, rec.user, auth.Policy().Name())
						}
						if op.Record {
							auth.Record()
						}
					}
					// A discovery that must be current (the TCP path) decides after its last
					// attempt: a reload that completed before that instant must be honoured
					// ("once a reload has completed no new connection is authenticated with a
					// credential that is no longer registered"). The hint-mandatory flag is
					// read before the attempt and carries no such promise, so the interval is
					// only narrowed in runs that never toggle it.
					if op.Current && !togglesMandatory && a.lastTried > rec.call {
						rec.call = a.lastTried
					}
				}
				a.inOp = false
				rec.ret = c.step
				history = append(history, rec)
				w.histLog("actor %d %s seg=%d set=%d -> %v %s [%d,%d]", a.id, op.Op, op.Seg, op.Set, rec.ok, rec.user, rec.call, rec.ret)
				c.yield("op-boundary")
			}
			a.done = true
			c.back <- struct{}{}
		}()
	}
	c.run()
	serveruser.VerifYield = nil
	for k, v := range c.sites {
		w.probes["yield:"+k] += v
	}

	// (ii) linearizability against the reference decision
	model := porcupine.Model{
		Init: func() interface{} { return regState{set: 0, on: rs.Mandatory} },
		Step: func(state, input, output interface{}) (bool, interface{}) {
			st := state.(regState)
			in := input.(regIn)
			out := output.(regOut)
			switch in.kind {
			case "setusers":
				st.set = in.set
				return true, st
			case "mandatory":
				st.on = in.on
				return true, st
			default:
				exp := expected(st.set, st.on, in.seg)
				if !out.ok {
					return exp["<reject>"], st
				}
				return exp[out.user], st
			}
		},
		Equal: func(a, b interface{}) bool { return a.(regState) == b.(regState) },
		DescribeOperation: func(input, output interface{}) string {
			return fmt.Sprintf("%+v -> %+v", input, output)
		},
	}
	var ops []porcupine.Operation
	for _, h := range history {
		in := regIn{kind: h.op.Op, set: h.op.Set % len(rs.Sets), on: h.op.On, seg: h.op.Seg % len(rs.Segs)}
		ops = append(ops, porcupine.Operation{ClientId: h.actor, Input: in, Call: int64(h.call) * 2, Output: regOut{ok: h.ok, user: h.user}, Return: int64(h.ret)*2 + 1})
	}
	w.addCheck(int64(len(ops)))
	switch porcupine.CheckOperationsTimeout(model, ops, 30*time.Second) {
	case porcupine.Illegal:
		var sb strings.Builder
		for _, h := range history {
			if h.op.Op == "discover" {
				g := h.op.Seg % len(rs.Segs)
				fmt.Fprintf(&sb, "[a%d discover seg%d(cred %d hint %d) src%d cur=%v -> %v %q @%d..%d] ", h.actor, g, rs.Segs[g].Cred, rs.Segs[g].Hint, h.op.Source, h.op.Current, h.ok, h.user, h.call, h.ret)
			} else {
				fmt.Fprintf(&sb, "[a%d %s set%d on=%v @%d..%d] ", h.actor, h.op.Op, h.op.Set%len(rs.Sets), h.op.On, h.call, h.ret)
			}
		}
		// a sequential explanation helps triage: is a single operation wrong on its own?
		cls := "history-not-linearizable"
		for _, h := range history {
			if h.op.Op != "discover" {
				continue
			}
			g := h.op.Seg % len(rs.Segs)
			possible := false
			for v := range rs.Sets {
				for _, m := range []bool{false, true} {
					exp := expected(v, m, g)
					if (!h.ok && exp["<reject>"]) || (h.ok && exp[h.user]) {
						possible = true
					}
				}
			}
			if !possible {
				cls = "discover-result-impossible-under-any-generation"
				if h.ok {
					cls += ":accepted"
				} else {
					cls += ":rejected"
				}
				break
			}
		}
		w.violate("C07", cls, "no linearization of the history agrees with the reference decision (cold registry semantics): %s", sb.String())
	case porcupine.Unknown:
		w.probe("porcupine-unknown")
	default:
		w.probe("porcupine-ok")
	}
	end()
}

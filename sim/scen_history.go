package sim

import (
	"fmt"
	"os"
	"path/filepath"
	"time"

	"github.com/enfein/mieru/v3/pkg/cipher"
	"github.com/enfein/mieru/v3/pkg/metrics"
	"github.com/enfein/mieru/v3/pkg/metrics/metricspb"
	"github.com/enfein/mieru/v3/pkg/replay"
	"google.golang.org/protobuf/proto"

	"verifsim/refproto"
	"verifsim/spec"
)

func init() { scenarios["history"] = scenHistory }

// scenHistory drives one component through a generated operation history under
// the virtual clock and compares every step with a small reference model.
func scenHistory(s *spec.RunSpec, res *spec.RunResult, finish func(*World)) {
	w := &World{Spec: s, Res: res, sessions: map[string]*sessRT{}, probes: map[string]int{}, faults: map[string]int{}, states: map[string]struct{}{}}
	w.start = time.Now()
	end := func() {
		res.Completed = true
		res.NonTrivial = w.checks.Load() > 0
		res.VirtualUs = w.nowUs()
		for k, v := range w.probes {
			res.Probes[k] += v
		}
		for k, v := range w.faults {
			res.Faults[k] += v
		}
		res.Checks = w.checks.Load()
		res.EventHash = fmt.Sprintf("%016x", w.histHash)
		res.Events = w.histEvents
		for k := range w.states {
			res.States = append(res.States, k)
		}
		writeResultAndExit(res)
	}
	if s.Hist == nil {
		res.Harness = append(res.Harness, "history scenario without hist")
		end()
	}
	switch s.Hist.Kind {
	case "replaycache":
		w.histReplayCache(s.Hist)
	case "counter":
		w.histCounter(s.Hist)
	case "keycache":
		w.histKeyCache(s.Hist)
	default:
		res.Harness = append(res.Harness, "unknown history kind "+s.Hist.Kind)
	}
	end()
}

func (w *World) histLog(format string, a ...any) {
	line := fmt.Sprintf("%d ", w.nowUs()) + fmt.Sprintf(format, a...)
	h := w.histHash
	if h == 0 {
		h = 14695981039346656037
	}
	for i := 0; i < len(line); i++ {
		h ^= uint64(line[i])
		h *= 1099511628211
	}
	w.histHash = h
	w.histEvents++
	if w.Spec.KeepLog {
		w.Res.Log = append(w.Res.Log, line)
	}
}

// ---------------------------------------------------------------------------
// C06: replay cache against an ideal bounded-memory set

type rcEntry struct {
	lastAt    time.Duration
	lastIndex int // value of the distinct-insertion counter when it was last offered
	tags      map[int]bool
}

func (w *World) histReplayCache(h *spec.History) {
	interval := time.Duration(h.IntervalUs) * time.Microsecond
	c := replay.NewCache(h.Cap, interval)
	seen := map[int]*rcEntry{}
	offered := 0 // number of IsDuplicate calls so far (upper bound on distinct insertions)
	for i, op := range h.Ops {
		switch op.Op {
		case "sleep":
			time.Sleep(time.Duration(op.SleepUs) * time.Microsecond)
		case "dup":
			item := []byte(fmt.Sprintf("item-%d-0123456789abcdef", op.Item))
			tag := ""
			if op.Tag > 0 {
				tag = fmt.Sprintf("10.0.0.%d:1", op.Tag)
			}
			got := c.IsDuplicate(item, tag)
			now := time.Since(w.start)
			e := seen[op.Item]
			w.checks.Add(1)
			w.histLog("dup item=%d tag=%d -> %v", op.Item, op.Tag, got)
			if e == nil {
				w.probe("rc-never-seen")
				if got {
					w.violate("C06", "cache-invents-replay", "step %d: item %d was never offered before but IsDuplicate returned true (cap %d interval %v)", i, op.Item, h.Cap, interval)
				}
				e = &rcEntry{tags: map[int]bool{}}
				seen[op.Item] = e
			} else {
				age := now - e.lastAt
				newer := offered - e.lastIndex // calls since it was last offered: an upper bound on new distinct entries
				remembered := age < interval && newer < h.Cap && h.Cap > 0
				// tag rule: a duplicate unless both tags are non-empty and equal
				mustDup := false
				if remembered {
					if op.Tag == 0 {
						mustDup = true
					} else if len(e.tags) == 1 && !e.tags[op.Tag] && !e.tags[0] {
						mustDup = true
					} else if e.tags[0] && len(e.tags) == 1 {
						mustDup = true
					}
				}
				if remembered {
					w.probe("rc-within-contract")
				} else if age >= interval {
					w.probe("rc-older-than-interval")
				} else {
					w.probe("rc-pushed-out-by-capacity")
				}
				if mustDup && !got {
					w.violate("C06", "cache-forgets-recent-entry", "step %d: item %d was offered %v ago (< interval %v) and followed by %d < cap %d other calls, tag rule says duplicate, but IsDuplicate returned false", i, op.Item, age, interval, newer, h.Cap)
				}
				// same non-empty tag as the only earlier tag: never a duplicate
				if got && op.Tag != 0 && len(e.tags) == 1 && e.tags[op.Tag] {
					w.violate("C06", "cache-flags-same-source", "step %d: item %d re-offered with the same tag %d was reported as a replay", i, op.Item, op.Tag)
				}
			}
			e.lastAt = now
			offered++
			e.lastIndex = offered
			e.tags[op.Tag] = true
		}
	}
}

// ---------------------------------------------------------------------------
// C19: time-series counter against the list of increments

type cEvent struct {
	at    time.Time
	delta int64
}

func (w *World) histCounter(h *spec.History) {
	group := fmt.Sprintf("verif-group-%d", w.Spec.Seed)
	m := metrics.RegisterMetric(group, "bytes", metrics.COUNTER_TIME_SERIES)
	c := m.(*metrics.Counter)
	var model []cEvent
	var total int64
	dir, _ := os.MkdirTemp("", "vsim-metrics-")
	defer os.RemoveAll(dir)
	dumpPath := filepath.Join(dir, "metrics.pb")
	metrics.SetMetricsDumpFilePath(dumpPath)
	dumped := false
	var dumpTotal int64
	lastHistLen := 0
	// Snapshots taken earlier (what a dump or a GetUsers RPC holds while it serialises,
	// concurrently with accounting) must stay what they were: later increments and
	// compactions may not reach into them.
	type heldSnap struct {
		pb    *metricspb.Metric
		total int64
		step  int
	}
	var held []heldSnap
	check := func(i int, what string) {
		w.checks.Add(1)
		for _, hs := range held {
			var sum int64
			for _, e := range hs.pb.GetHistory() {
				sum += e.GetDelta()
			}
			if sum != hs.total || hs.pb.GetValue() != hs.total {
				w.violate("C19", "held-snapshot-changed", "step %d (%s): the snapshot taken at step %d (total %d) now has value %d and a history that sums to %d", i, what, hs.step, hs.total, hs.pb.GetValue(), sum)
			}
		}
		if len(held) >= 3 {
			held = held[1:]
		}
		if i%7 == 0 {
			held = append(held, heldSnap{metrics.ToMetricPB(c), total, i})
		}
		if got := c.Load(); got != total {
			w.violate("C19", "counter-total-wrong", "step %d (%s): Load()=%d, sum of increments=%d", i, what, got, total)
		}
		pb := metrics.ToMetricPB(c)
		var sum int64
		var prev int64 = -1 << 62
		for k, e := range pb.GetHistory() {
			sum += e.GetDelta()
			if e.GetTimeUnixMilli() < prev {
				w.violate("C19", "history-disordered", "step %d (%s): history entry %d at %d ms precedes its predecessor at %d ms", i, what, k, e.GetTimeUnixMilli(), prev)
			}
			prev = e.GetTimeUnixMilli()
		}
		if sum != total {
			w.violate("C19", "history-sum-differs-from-total", "step %d (%s): sum of history=%d, total=%d (%d entries)", i, what, sum, total, len(pb.GetHistory()))
		}
		if n := len(pb.GetHistory()); n < lastHistLen {
			w.probe("counter-rollup-shrunk-history")
			lastHistLen = n
		} else {
			lastHistLen = n
		}
	}
	for i, op := range h.Ops {
		switch op.Op {
		case "sleep":
			time.Sleep(time.Duration(op.SleepUs) * time.Microsecond)
			if op.SleepUs > int64(2*time.Hour/time.Microsecond) {
				w.probe("counter-gap-over-2h")
			}
			if op.SleepUs > int64(8*24*time.Hour/time.Microsecond) {
				w.probe("counter-gap-over-8d")
			}
		case "add":
			n := op.Count
			if n <= 0 {
				n = 1
			}
			for k := 0; k < n; k++ {
				c.Add(op.Delta)
				if op.Delta > 0 {
					model = append(model, cEvent{time.Now(), op.Delta})
					total += op.Delta
				}
			}
			w.histLog("add %d x%d total=%d", op.Delta, n, total)
			check(i, "add")
		case "load":
			check(i, "load")
		case "window":
			now := time.Now()
			t1 := now.Add(-time.Duration(op.FromUs) * time.Microsecond)
			t2 := now.Add(-time.Duration(op.ToUs) * time.Microsecond)
			if t2.Before(t1) {
				t1, t2 = t2, t1
			}
			got := c.DeltaBetween(t1, t2)
			w.checks.Add(1)
			w.histLog("window %v..%v -> %d", op.FromUs, op.ToUs, got)
			if got > total || got < 0 {
				w.violate("C19", "window-exceeds-total", "step %d: DeltaBetween(now-%dus, now-%dus)=%d but the total is %d", i, op.FromUs, op.ToUs, got, total)
			}
			// roll-up moves an entry earlier by less than a day, never later
			var hi, lo int64
			day := 24 * time.Hour
			for _, e := range model {
				if e.at.After(t1.Add(-time.Millisecond)) && e.at.Before(t2.Add(day)) {
					hi += e.delta
				}
				if e.at.After(t1.Add(day)) && !e.at.After(t2) {
					lo += e.delta
				}
			}
			if got > hi {
				w.violate("C19", "window-overcounts", "step %d: DeltaBetween=%d exceeds every increment made in (t1, t2+24h) = %d", i, got, hi)
			}
			if got < lo {
				w.violate("C19", "window-undercounts", "step %d: DeltaBetween=%d is below the increments made in (t1+24h, t2] = %d", i, got, lo)
			}
		case "restart":
			// dump -> new process -> load, for this counter
			pb := metrics.ToMetricPB(c)
			b, err := proto.Marshal(pb)
			if err != nil {
				w.harness("marshal metric: %v", err)
				return
			}
			pb2 := &metricspb.Metric{}
			if err := proto.Unmarshal(b, pb2); err != nil {
				w.harness("unmarshal metric: %v", err)
				return
			}
			nm, err := metrics.FromMetricPB(pb2)
			if err != nil {
				w.violate("C19", "reload-rejects-own-dump", "step %d: FromMetricPB failed on a fresh dump: %v", i, err)
				return
			}
			c = nm.(*metrics.Counter)
			w.probe("counter-restart")
			w.histLog("restart total=%d", total)
			check(i, "restart")
		case "dump":
			if err := metrics.DumpMetricsNow(); err != nil {
				w.violate("C19", "dump-failed", "step %d: DumpMetricsNow: %v", i, err)
			} else {
				dumped = true
				dumpTotal = m.Load() // the registered counter (after a "restart" op the model follows an unregistered reload of it)
			}
		case "reload":
			if !dumped {
				continue
			}
			if op.Cut == 0 {
				// What a restarted server does: the process has never seen this user's metric
				// group when it loads the dump. The dump is presented under a group name that
				// was never registered in this process; value and history must come back.
				if b, err := os.ReadFile(dumpPath); err == nil {
					all := &metricspb.AllMetrics{}
					if proto.Unmarshal(b, all) == nil {
						fresh := fmt.Sprintf("%s-restart-%d", group, i)
						for _, g := range all.GetGroups() {
							if g.GetName() == group {
								g.Name = proto.String(fresh)
							}
						}
						if nb, err := proto.Marshal(all); err == nil && os.WriteFile(dumpPath, nb, 0o660) == nil {
							lerr := metrics.LoadMetricsFromDump()
							w.checks.Add(1)
							w.probe("counter-dump-loaded-by-fresh-process")
							var got, sum int64 = -1, 0
							if g := metrics.GetMetricGroupByName(fresh); g != nil {
								if m, ok := g.GetMetric("bytes"); ok {
									got = m.Load()
									for _, e := range metrics.ToMetricPB(m).GetHistory() {
										sum += e.GetDelta()
									}
								}
							}
							if lerr != nil || got != dumpTotal || sum != dumpTotal {
								w.violate("C19", "dump-not-restored-after-restart", "step %d: a process that had never seen the group loaded a dump holding total %d: LoadMetricsFromDump err=%v, counter=%d (-1: not registered), history sums to %d", i, dumpTotal, lerr, got, sum)
							}
							os.WriteFile(dumpPath, b, 0o660)
						}
					}
				}
			}
			if op.Cut > 0 {
				if b, err := os.ReadFile(dumpPath); err == nil && op.Cut < len(b) {
					os.WriteFile(dumpPath, b[:op.Cut], 0o660)
					w.faults["disk-torn-dump"]++
				}
			}
			before := c.Load()
			err := metrics.LoadMetricsFromDump()
			after := c.Load()
			w.checks.Add(1)
			w.histLog("reload cut=%d err=%v %d->%d", op.Cut, err != nil, before, after)
			if after < before {
				w.violate("C19", "reload-decreases-total", "step %d: total went from %d to %d on LoadMetricsFromDump (err=%v)", i, before, after, err)
			}
			if op.Cut == 0 && err != nil {
				w.violate("C19", "reload-rejects-own-dump", "step %d: LoadMetricsFromDump failed on an intact dump: %v", i, err)
			}
			dumped = false
		}
	}
	check(len(h.Ops), "end")
}

// ---------------------------------------------------------------------------
// C08(d): key cache lookups with arbitrary, non-monotonic instants

func (w *World) histKeyCache(h *spec.History) {
	cred := refproto.Cred{User: "kcuser", Password: fmt.Sprintf("kcpass-%d", w.Spec.Seed)}
	hp := refproto.HashedPassword(cred)
	dec, err := cipher.NewStatelessDecryptor(hp[:])
	if err != nil {
		w.harness("NewStatelessDecryptor: %v", err)
		return
	}
	ct := func(slot int64, ts int64) []byte {
		key := refproto.KeyForSlot(hp, slot)
		var nonce [24]byte
		for i := range nonce {
			nonce[i] = byte(slot>>uint(i%8)) ^ byte(i*7)
		}
		m := refproto.Meta{Type: refproto.TypeAckC2S, TimestampMin: uint32(ts / 60), SessionID: 7, Seq: 1}
		b, err := refproto.EncodeDatagram(key, "", nonce, m, nil, refproto.EncodeOpts{})
		if err != nil {
			w.harness("encode: %v", err)
			return nil
		}
		return b[:refproto.NonceLen+refproto.EncMetaLen]
	}
	for i, op := range h.Ops {
		switch op.Op {
		case "sleep":
			time.Sleep(time.Duration(op.SleepUs) * time.Microsecond)
		case "lookup":
			t := w.start.Add(time.Duration(op.AtUs) * time.Microsecond)
			cur := refproto.SlotOf(t.Unix())
			blocks, epoch, _, err := cipher.VerifCipherListAt(hp[:], t)
			w.checks.Add(1)
			w.histLog("lookup at=%d epoch=%d err=%v", op.AtUs, epoch, err != nil)
			if err != nil {
				w.violate("C08", "key-cache-error", "step %d: lookup at %v failed: %v", i, t, err)
				continue
			}
			if epoch != cur {
				w.violate("C08", "key-cache-wrong-epoch", "step %d: lookup at %v (unix %d) served the entry of epoch %d, the reference slot is %d", i, t.UTC(), t.Unix(), epoch, cur)
			}
			opens := func(c []byte) bool {
				for _, b := range blocks {
					if _, err := b.DecryptStatelessTo(c, nil); err == nil {
						return true
					}
				}
				return false
			}
			for _, s := range refproto.CandidateSlots(t.Unix()) {
				if !opens(ct(s, t.Unix())) {
					w.violate("C08", "key-cache-misses-candidate-slot", "step %d: cipher list served for instant %v (slot %d) cannot open a segment keyed for slot %d", i, t.UTC(), cur, s)
				}
			}
			for _, s := range []int64{cur - 240, cur + 240, cur - 480, cur + 480} {
				if opens(ct(s, t.Unix())) {
					w.violate("C08", "key-cache-serves-other-slot", "step %d: cipher list served for instant %v (slot %d) opens a segment keyed for slot %d (>= 4 minutes away)", i, t.UTC(), cur, s)
				}
			}
			// the per-user stateless decryptor keeps its own pointer to a cache entry
			for _, s := range []int64{cur - 240, cur - 120, cur, cur + 120, cur + 240} {
				_, _, err := dec.VerifTryDecryptAt(ct(s, t.Unix()), nil, t)
				near := s >= cur-120 && s <= cur+120
				w.checks.Add(1)
				if near && err != nil {
					w.violate("C08", "decryptor-misses-candidate-slot", "step %d: StatelessDecryptor at %v (slot %d) failed to open a segment keyed for slot %d", i, t.UTC(), cur, s)
				}
				if !near && err == nil {
					w.violate("C08", "decryptor-serves-other-slot", "step %d: StatelessDecryptor at %v (slot %d) opened a segment keyed for slot %d", i, t.UTC(), cur, s)
				}
			}
			w.states[fmt.Sprintf("phase%d", (t.Unix()%120)/10)] = struct{}{}
		}
	}
}

package sim

import (
	"bytes"
	"fmt"

	"github.com/enfein/mieru/v3/pkg/metrics"
	"runtime/pprof"
	"strings"
	"sync"
	"time"

	"verifsim/spec"
)

func init() { scenarios["stream"] = scenStream }

// scenStream: real clients and a real server exchange scripted full-duplex
// PRF streams over the simulated network. Serves C01, C02, C03, C04 and the
// tap invariants C09 (direction 1), C13, C14, C16 and C07(iii).
func scenStream(s *spec.RunSpec, res *spec.RunResult, finish func(*World)) {
	w, err := NewWorld(s, res)
	if err != nil {
		res.Harness = append(res.Harness, "world: "+err.Error())
		finish(nil)
	}
	w.startCap(finish)
	go w.serverAcceptLoop()
	w.scheduleTimedStreamFaults()
	w.runWorkload()
	w.finalChecks(false)
	w.stopAll()
	res.Completed = true
	finish(w)
}

// startCap arms the virtual-time cap of the run.
func (w *World) startCap(finish func(*World)) {
	capD := time.Duration(w.Spec.VirtualCapS) * time.Second
	if capD <= 0 {
		capD = 10 * time.Minute
	}
	go func() {
		time.Sleep(capD)
		w.Res.CapHit = true
		w.dumpStacks()
		w.finalChecks(true)
		finish(w)
	}()
	// last resort: if the harness itself is wedged (the cap handler could not
	// finish), end the run without touching any harness lock
	go func() {
		time.Sleep(capD + 2*time.Minute)
		writeResultAndExit(&spec.RunResult{Property: w.Spec.Property, Seed: w.Spec.Seed, CapHit: true, Harness: []string{"harness wedged: the virtual-time cap handler did not finish"}})
	}()
}

func (w *World) stopAll() {
	for _, c := range w.clients {
		c.cli.Stop()
	}
	if w.srv != nil {
		w.srv.Stop()
	}
}

// runWorkload runs every scripted session to its end.
func (w *World) runWorkload() {
	var clientWG sync.WaitGroup
	var all []*sessRT
	for _, c := range w.clients {
		for i := range c.spec.Sessions {
			rt := w.newSession(c, &c.spec.Sessions[i])
			all = append(all, rt)
		}
	}
	for _, rt := range all {
		rt := rt
		clientWG.Add(1)
		w.wg.Add(1)
		go func() {
			defer clientWG.Done()
			rt.runClientSide()
		}()
	}
	clientWG.Wait()
	// Give the server ends a bounded time to finish (a lost close is legal;
	// the idle-session timeout then ends them).
	deadline := time.Now().Add(150 * time.Second)
	for time.Now().Before(deadline) {
		pending := false
		for _, rt := range all {
			if rt.sconn == nil {
				continue
			}
			rt.dirs[0].mu.Lock()
			ended := rt.dirs[0].readEnd != ""
			rt.dirs[0].mu.Unlock()
			if !ended {
				pending = true
			}
		}
		if !pending {
			break
		}
		time.Sleep(500 * time.Millisecond)
	}
}

func (w *World) destroyingFaults() bool {
	for _, f := range w.Spec.Net.Stream {
		switch f.Kind {
		case "rewrite", "xor", "cut-fin", "cut-rst", "reset-at", "blackhole-at", "cutfin-at":
			return true
		}
	}
	return false
}

func (w *World) datagramFaultsConfigured() bool {
	n := &w.Spec.Net
	return n.DropRate > 0 || n.DupRate > 0 || n.DelayRate > 0 || n.CorruptRate > 0 || len(n.Rules) > 0 || len(n.Blackholes) > 0
}

// finalChecks evaluates the end-of-run oracles.
func (w *World) finalChecks(capHit bool) {
	s := w.Spec
	w.mu.Lock()
	sess := make([]*sessRT, 0, len(w.sessions))
	for _, rt := range w.sessions {
		sess = append(sess, rt)
	}
	w.mu.Unlock()
	nontrivial := true
	for _, rt := range sess {
		prop := rt.streamProp()
		udp := rt.cli.spec.Transport == "udp"
		completeExpected := rt.spec.CloseMode == "barrier" || rt.spec.CloseMode == "none"
		if w.destroyingFaults() {
			completeExpected = false
		}
		if udp && w.datagramFaultsConfigured() && s.Liveness == nil {
			completeExpected = false // safety-only run: progress is not demanded
		}
		if rt.spec.C2S.StopRead > 0 || rt.spec.S2C.StopRead > 0 {
			completeExpected = false
		}
		for d := 0; d < 2; d++ {
			dr := rt.dirs[d]
			dr.mu.Lock()
			read, wok, exp, rend, werr := dr.read, dr.writtenOK, dr.expected, dr.readEnd, dr.writeErr
			completeAt, lastWrite := dr.completeAt, dr.lastWrite
			dr.mu.Unlock()
			if exp > 0 && read == 0 {
				nontrivial = false
			}
			w.addCheck(1)
			if !completeExpected {
				continue
			}
			if rt.dialErr != "" && w.singleAcceptLoopBlocked() {
				w.violate(prop, "new-session-starved:single-accept-loop-held-by-hostile-session", "%s: DialContext failed (%s) while the server application's only Accept() call was held (10 s SOCKS read) by a session that an authenticated hostile user opened without sending a request", rt.key, rt.dialErr)
				break
			}
			if rt.dialErr != "" {
				w.violate(prop, "dial-failed", "%s: DialContext failed although no destroying fault was injected: %s", rt.key, rt.dialErr)
				break
			}
			if read != exp {
				why := rend
				if werr != "" {
					why = "write error: " + werr
				}
				if capHit && rend == "" {
					why = "still blocked at the virtual-time cap"
				}
				cls := "incomplete"
				if capHit {
					cls = "stalled"
				}
				if w.starvedByHostile(rt, werr+" "+rend) {
					cls = "new-session-starved:single-accept-loop-held-by-hostile-session"
				}
				w.violate(prop, cls, "%s dir %d: %d of %d bytes delivered (written ok %d); reader end: %q", rt.key, d, read, exp, wok, why)
			} else if s.Liveness != nil && exp > 0 {
				from := lastWrite
				if heal := time.Duration(s.Net.HealUs) * time.Microsecond; heal > from {
					from = heal
				}
				if bound := time.Duration(s.Liveness.BoundUs) * time.Microsecond; completeAt > from+bound {
					w.violate(prop, "progress-too-slow", "%s dir %d: last byte read at %v, %v after faults stopped / the last write returned (bound %v)", rt.key, d, completeAt, completeAt-from, bound)
				}
			}
			if read == exp && werr != "" && w.singleAcceptLoopBlocked() && strings.Contains(werr, "socks5") {
				w.violate(prop, "new-session-starved:single-accept-loop-held-by-hostile-session", "%s dir %d: %s", rt.key, d, werr)
			} else if read == exp && werr != "" {
				w.violate(prop, "write-error", "%s dir %d: Write failed with %q although every byte was delivered", rt.key, d, werr)
			}
		}
		// C07(iii): the accepted session is attributed to the dialling client's user.
		if rt.sconn != nil {
			want := s.Server.Users[rt.cli.spec.User].Name
			w.addCheck(1)
			if rt.user != want {
				w.violate("C07", "wrong-user-attributed", "%s: dialled as %q, server session UserName()=%q", rt.key, want, rt.user)
			}
		}
	}
	if s.Property == "C19" {
		w.quotaChecks(sess)
	}
	faulty := w.datagramFaultsConfigured() || len(s.Net.Stream) > 0
	if faulty {
		w.mu.Lock()
		hit := 0
		for k, v := range w.faults {
			if strings.HasSuffix(k, "-inflight") || strings.HasPrefix(k, "tcp-") {
				hit += v
			}
		}
		w.mu.Unlock()
		st := w.Net.Stats()
		hit += st.Rewrites + st.Cuts + st.Resets + st.Stalls
		if hit == 0 {
			nontrivial = false
		}
	}
	w.mu.Lock()
	if w.checks.Load() == 0 {
		nontrivial = false
	}
	w.mu.Unlock()
	w.Res.NonTrivial = nontrivial
	if capHit {
		w.harnessOrLiveness()
	}
}

// harnessOrLiveness: the virtual-time cap fired. Where a liveness oracle is
// armed the stall is already reported by finalChecks; elsewhere the run is
// inconclusive and the driver treats it as a harness problem (exit 2).
func (w *World) harnessOrLiveness() {
	if w.Spec.Liveness != nil || w.Spec.Property == "C01" || w.Spec.Property == "C15" {
		return
	}
	if w.datagramFaultsConfigured() {
		// a safety-only run (faults without a fairness budget): progress is not promised, and
		// thousands of tiny segments under 25 % loss can simply take longer than the cap
		w.probe("cap-hit-in-safety-only-run")
		return
	}
	w.harness("virtual-time cap hit: %s", w.describeSessions())
}

func (w *World) describeSessions() string {
	var sb strings.Builder
	for _, o := range w.outcomes() {
		fmt.Fprintf(&sb, "[c%ds%d c2s %d/%d s2c %d/%d ce=%q se=%q dial=%q] ", o.Client, o.Session, o.C2SRead, o.C2SWritten, o.S2CRead, o.S2CWritten, o.ClientEnd, o.ServerEnd, o.DialErr)
	}
	return sb.String()
}

// dumpStacks keeps the goroutine dump (aggregated form) when the cap fires.
func (w *World) dumpStacks() {
	var buf bytes.Buffer
	pprof.Lookup("goroutine").WriteTo(&buf, 1)
	w.mu.Lock()
	if w.Res.Info == nil {
		w.Res.Info = map[string]string{}
	}
	st := buf.String()
	if len(st) > 30000 {
		st = st[:30000]
	}
	w.Res.Info["stacks"] = st
	w.mu.Unlock()
}

// singleAcceptLoopBlocked: the server application calls Server.Accept from one
// goroutine and an authenticated hostile user has opened at least one session
// (Accept then sits in its 10 s SOCKS-request read for that session).
func (w *World) singleAcceptLoopBlocked() bool {
	if w.Spec.Server.Acceptors > 1 || w.Spec.Attack == nil {
		return false
	}
	n, _ := w.Tap.hostileSessionsOpened()
	return n > 0
}

// starvedByHostile: the session's failure is the known head-of-line blocking of a
// single Accept loop: a hostile session was opened before the application got this
// session (if it ever did), and the client gave up waiting for the SOCKS reply or the
// dial failed.
func (w *World) starvedByHostile(rt *sessRT, clientErr string) bool {
	if w.Spec.Server.Acceptors > 1 || w.Spec.Attack == nil {
		return false
	}
	n, first := w.Tap.hostileSessionsOpened()
	if n == 0 {
		return false
	}
	if rt.sconn != nil && rt.acceptedAt <= first+time.Second {
		return false // the application had the session before any hostile session could hold Accept
	}
	return rt.sconn == nil || strings.Contains(clientErr, "socks5 response")
}

// quotaChecks: C19 end to end. Per user, the server's upload/download counters
// equal what the server application read/wrote; a user whose counted traffic
// exceeded the allowance has new sessions refused with nothing handed to the
// application; users within their allowance (and other users) are never refused.
func (w *World) quotaChecks(sess []*sessRT) {
	s := w.Spec
	for _, u := range s.Server.Users {
		g := metrics.GetMetricGroupByName(fmt.Sprintf(metrics.UserMetricGroupFormat, u.Name))
		w.mu.Lock()
		up, down := w.userUp[u.Name], w.userDown[u.Name]
		w.mu.Unlock()
		var mup, mdown int64
		if g != nil {
			if m, ok := g.GetMetric(metrics.UserMetricUploadBytes); ok {
				mup = m.Load()
			}
			if m, ok := g.GetMetric(metrics.UserMetricDownloadBytes); ok {
				mdown = m.Load()
			}
		}
		w.addCheck(1)
		if mup != up {
			w.violate("C19", "upload-counter-differs", "user %s: UploadBytes=%d but the server application read %d bytes from this user's sessions", u.Name, mup, up)
		}
		if mdown != down {
			w.violate("C19", "download-counter-differs", "user %s: DownloadBytes=%d but the server application wrote %d bytes to this user's sessions", u.Name, mdown, down)
		}
	}
	for _, rt := range sess {
		if !rt.dialled {
			continue
		}
		u := s.Server.Users[rt.cli.spec.User]
		mustRefuse, mustAccept := false, true
		for _, q := range u.Quotas {
			lo, hi := rt.totalAtDial0, rt.totalAtDial1
			if lo >= int64(q.Megabytes+1)*1048576 {
				mustRefuse = true
			}
			if hi > int64(q.Megabytes)*1000000 {
				mustAccept = false
			}
		}
		w.addCheck(1)
		refused := rt.dialErr != "" || (rt.sconn == nil && rt.dirs[1].readEnd != "" && rt.dirs[1].read == 0 && rt.dirs[1].expected > 0)
		if mustRefuse {
			w.probe("quota-session-over-allowance")
			if rt.sconn != nil {
				tr := rt.cli.spec.Transport
				mode := "standard"
				if rt.cli.spec.NoWait {
					mode = "nowait"
				}
				w.violate("C19", "over-quota-session-reached-application:"+tr+":"+mode, "%s: user %s had %d bytes counted (allowance %v) when it opened this session, yet Server.Accept returned it and the application read %d bytes of it", rt.key, u.Name, rt.totalAtDial0, u.Quotas, rt.dirs[0].read)
			}
			if !refused {
				w.violate("C19", "over-quota-session-not-refused", "%s: user %s had %d bytes counted (allowance %v) but the new session was not refused (client read %d bytes)", rt.key, u.Name, rt.totalAtDial0, u.Quotas, rt.dirs[1].read)
			} else if !w.Tap.sawQuotaClose(rt) {
				w.violate("C19", "refusal-without-quota-status", "%s: over-quota session refused, but no close request with the quota status was seen on the wire", rt.key)
			}
		} else if mustAccept {
			w.probe("quota-session-within-allowance")
			if rt.dialErr != "" && !w.destroyingFaults() {
				w.violate("C19", "within-quota-session-refused", "%s: user %s had at most %d bytes counted (allowance %v) but its new session failed: %s", rt.key, u.Name, rt.totalAtDial1, u.Quotas, rt.dialErr)
			}
		} else {
			w.probe("quota-session-at-threshold")
		}
	}
}

package sim

import (
	"context"
	"fmt"
	"net"
	"strings"
	"sync"

	"verifsim/simnet"
)

// vhost is the simulated operating system of one machine for pkg/socks5 (via
// package vnet). It interprets dial targets and datagram destinations the way
// an OS would — an empty host and the unspecified address reach the local
// machine, names resolve case-insensitively through the hosts table — and
// records every target so that C12 can be judged on what the network saw.
type vhost struct {
	w    *World
	node *simnet.Node
	name string

	mu     sync.Mutex
	dials  []dialRec
	dgrams []dialRec
}

type dialRec struct {
	raw   string // address string as pkg/socks5 passed it
	ip    string // after OS interpretation
	port  int
	class string // loopback | private | public | unresolvable
	atUs  int64
}

// osHosts is the machine's hosts table (lower-case keys).
var osHosts = map[string]string{
	"localhost": "127.0.0.1", "localhost4": "127.0.0.1", "localhost.localdomain": "127.0.0.1", "localhost4.localdomain4": "127.0.0.1",
	"localhost6": "::1", "ip6-localhost": "::1", "ip6-loopback": "::1", "localhost6.localdomain6": "::1",
	"public.example": "93.184.216.34", "v6.example": "2001:db8::1", "intranet.example": "10.1.2.3", "a.b.rule.example": "198.51.100.9",
}

func ipClass(ip net.IP) string {
	if ip == nil {
		return "unresolvable"
	}
	if v4 := ip.To4(); v4 != nil {
		ip = v4
	}
	switch {
	case ip.IsLoopback():
		return "loopback"
	case ip.IsPrivate():
		return "private"
	case ip.IsUnspecified():
		return "loopback"
	}
	return "public"
}

// osInterpret maps a host string to the IP the operating system would connect to.
func osInterpret(host string) (net.IP, string) {
	if host == "" {
		return net.ParseIP("127.0.0.1"), "loopback" // connect to ":80" goes to the local machine
	}
	if ip := net.ParseIP(host); ip != nil {
		if ip.IsUnspecified() {
			if ip.To4() != nil {
				return net.ParseIP("127.0.0.1"), "loopback"
			}
			return net.ParseIP("::1"), "loopback"
		}
		if v4 := ip.To4(); v4 != nil {
			ip = v4 // IPv4-mapped IPv6 is IPv4 on the wire
		}
		return ip, ipClass(ip)
	}
	name := strings.TrimSuffix(strings.ToLower(host), ".")
	if v, ok := osHosts[name]; ok {
		ip := net.ParseIP(v)
		return ip, ipClass(ip)
	}
	return nil, "unresolvable"
}

func (h *vhost) DialContext(ctx context.Context, network, address string) (net.Conn, error) {
	host, portStr, err := net.SplitHostPort(address)
	if err != nil {
		return nil, &net.OpError{Op: "dial", Net: network, Err: err}
	}
	var port int
	fmt.Sscan(portStr, &port)
	ip, class := osInterpret(host)
	h.mu.Lock()
	rec := dialRec{raw: address, port: port, class: class, atUs: h.w.nowUs()}
	if ip != nil {
		rec.ip = ip.String()
	}
	h.dials = append(h.dials, rec)
	h.mu.Unlock()
	if ip == nil {
		return nil, &net.OpError{Op: "dial", Net: network, Err: &net.DNSError{Err: "no such host", Name: host, IsNotFound: true}}
	}
	return h.node.DialContext(ctx, "tcp", net.JoinHostPort(ip.String(), portStr))
}

func (h *vhost) Listen(network, address string) (net.Listener, error) {
	return h.node.Listen(context.Background(), network, address)
}

func (h *vhost) ListenUDP(network string, laddr *net.UDPAddr) (net.PacketConn, error) {
	addr := "0.0.0.0:0"
	if laddr != nil {
		addr = laddr.String()
	}
	pc, err := h.node.ListenPacket(context.Background(), "udp", addr)
	if err != nil {
		return nil, err
	}
	return &vUDP{PacketConn: pc, h: h}, nil
}

// vUDP records where datagrams go (after OS interpretation).
type vUDP struct {
	net.PacketConn
	h *vhost
}

func (u *vUDP) WriteTo(b []byte, addr net.Addr) (int, error) {
	ua, ok := addr.(*net.UDPAddr)
	if !ok {
		return 0, fmt.Errorf("vnet: WriteTo needs a *net.UDPAddr")
	}
	ip, class := osInterpret(ua.IP.String())
	if len(ua.IP) == 0 {
		ip, class = net.ParseIP("127.0.0.1"), "loopback"
	}
	u.h.mu.Lock()
	u.h.dgrams = append(u.h.dgrams, dialRec{raw: ua.String(), ip: ip.String(), port: ua.Port, class: class, atUs: u.h.w.nowUs()})
	u.h.mu.Unlock()
	return u.PacketConn.WriteTo(b, &net.UDPAddr{IP: ip, Port: ua.Port})
}

// simResolver is the DNS view of the proxy server (the resolver it is configured with).
type simResolver struct{}

func (simResolver) LookupIP(ctx context.Context, network, host string) ([]net.IP, error) {
	name := strings.TrimSuffix(strings.ToLower(host), ".")
	if v, ok := osHosts[name]; ok {
		ip := net.ParseIP(v)
		switch network {
		case "ip4":
			if ip.To4() == nil {
				return nil, &net.DNSError{Err: "no such host", Name: host, IsNotFound: true}
			}
		case "ip6":
			if ip.To4() != nil {
				return nil, &net.DNSError{Err: "no such host", Name: host, IsNotFound: true}
			}
		}
		return []net.IP{ip}, nil
	}
	return nil, &net.DNSError{Err: "no such host", Name: host, IsNotFound: true}
}

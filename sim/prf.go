package sim

import "encoding/binary"

// Application payloads are a keyed pseudo-random function of (run seed,
// connection key, direction, offset): every byte an application reads is
// attributable to exactly one (connection, direction, offset), so loss,
// duplication, reordering, alteration and cross-session leakage can be told
// apart instead of being reported as a bare mismatch.

func mix64(z uint64) uint64 {
	z += 0x9e3779b97f4a7c15
	z = (z ^ (z >> 30)) * 0xbf58476d1ce4e5b9
	z = (z ^ (z >> 27)) * 0x94d049bb133111eb
	return z ^ (z >> 31)
}

type prfStream struct{ key uint64 }

func newPRF(seed uint64, conn int, dir int) prfStream {
	return prfStream{key: mix64(mix64(seed^0xa5a5a5a5) ^ uint64(conn)<<8 ^ uint64(dir))}
}

// Fill writes stream bytes [off, off+len(b)) into b.
func (p prfStream) Fill(b []byte, off int64) {
	var blk [8]byte
	i := 0
	for i < len(b) {
		bi := uint64(off+int64(i)) / 8
		binary.LittleEndian.PutUint64(blk[:], mix64(p.key+bi*0x9e3779b97f4a7c15))
		s := int((off + int64(i)) % 8)
		n := copy(b[i:], blk[s:])
		i += n
	}
}

func (p prfStream) Bytes(off int64, n int) []byte {
	b := make([]byte, n)
	p.Fill(b, off)
	return b
}

// Matches reports whether b equals the stream at off.
func (p prfStream) Matches(b []byte, off int64) bool {
	if off < 0 {
		return false
	}
	var blk [8]byte
	i := 0
	for i < len(b) {
		bi := uint64(off+int64(i)) / 8
		binary.LittleEndian.PutUint64(blk[:], mix64(p.key+bi*0x9e3779b97f4a7c15))
		s := int((off + int64(i)) % 8)
		for ; s < 8 && i < len(b); s, i = s+1, i+1 {
			if b[i] != blk[s] {
				return false
			}
		}
	}
	return true
}

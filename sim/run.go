package sim

import (
	"encoding/hex"
	"encoding/json"
	"fmt"
	"os"
	"runtime/pprof"
	"sort"
	"time"

	"verifsim/spec"
)

// RunInBubble executes one scenario. It is called inside a synctest bubble and
// never returns: it writes the result file and exits the process (mieru may
// legitimately leave goroutines behind; only C15 asks about them, explicitly).
func RunInBubble(s *spec.RunSpec, outPath string, wallStart time.Time) {
	res := &spec.RunResult{Property: s.Property, Seed: s.Seed, Faults: map[string]int{}, Probes: map[string]int{}}
	stopProfile := StopProfile
	writeResultAndExit = func(r *spec.RunResult) {
		stopProfile()
		writeResult(outPath, r)
		os.Exit(0)
	}
	finish := func(w *World) {
		if w != nil {
			w.collect()
		}
		res.WallMs = time.Since(wallStart).Milliseconds() // real clock is not visible in the bubble; filled by the driver
		stopProfile()
		writeResult(outPath, res)
		os.Exit(0)
	}
	// Phase relative to the 120 s key slot and the 60 s timestamp tick.
	if s.StartOffsetUs > 0 {
		time.Sleep(time.Duration(s.StartOffsetUs) * time.Microsecond)
	}
	scen, ok := scenarios[s.Scenario]
	if !ok {
		res.Harness = append(res.Harness, "unknown scenario "+s.Scenario)
		finish(nil)
	}
	scen(s, res, finish)
}

var writeResultAndExit func(*spec.RunResult)

// StopProfile ends the CPU profile that TestRun may have started outside the bubble
// (VSIM_CPUPROFILE, a debugging aid).
var StopProfile = func() {}

// StartProfile must be called outside the synctest bubble: the profile writer sleeps on the real clock.
func StartProfile() {
	if pp := os.Getenv("VSIM_CPUPROFILE"); pp != "" {
		if f, err := os.Create(pp); err == nil && pprof.StartCPUProfile(f) == nil {
			StopProfile = func() { pprof.StopCPUProfile(); f.Close() }
		}
	}
}

type scenarioFn func(s *spec.RunSpec, res *spec.RunResult, finish func(*World))

var scenarios = map[string]scenarioFn{}

func writeResult(path string, res *spec.RunResult) {
	b, err := json.Marshal(res)
	if err != nil {
		fmt.Fprintln(os.Stderr, "marshal result:", err)
		os.Exit(3)
	}
	tmp := path + ".tmp"
	if err := os.WriteFile(tmp, b, 0o644); err != nil {
		fmt.Fprintln(os.Stderr, "write result:", err)
		os.Exit(3)
	}
	os.Rename(tmp, path)
}

// collect copies counters from the world into the result.
func (w *World) collect() {
	res := w.Res
	if w.Net == nil {
		return
	}
	h, n := w.Net.LogHash()
	res.EventHash = fmt.Sprintf("%016x", h)
	res.Events = n
	res.VirtualUs = w.nowUs()
	st := w.Net.Stats()
	w.mu.Lock()
	for k, v := range w.faults {
		res.Faults[k] += v
	}
	for k, v := range w.probes {
		res.Probes[k] += v
	}
	res.Checks = w.checks.Load()
	for k := range w.states {
		res.States = append(res.States, k)
	}
	w.mu.Unlock()
	sort.Strings(res.States)
	add := func(k string, v int) {
		if v > 0 {
			res.Faults[k] += v
		}
	}
	add("net-dropped", st.Dropped)
	add("net-duplicated", st.Duplicated)
	add("net-delayed", st.Delayed)
	add("net-reordered", st.Reordered)
	add("net-corrupted", st.Corrupted)
	add("net-mtu-dropped", st.MTUDropped)
	add("net-tcp-cut", st.Cuts)
	add("net-tcp-reset", st.Resets)
	add("net-tcp-stall", st.Stalls)
	add("net-tcp-rewrite", st.Rewrites)
	add("net-tcp-backpressure-wait", st.BackPressureWait)
	if st.InboxOverflow > 0 {
		res.Harness = append(res.Harness, fmt.Sprintf("inbox overflow %d", st.InboxOverflow))
	}
	res.Probes["tcp-reads"] += int(st.StreamReads)
	res.Probes["datagrams"] += st.Datagrams
	res.Probes["tcp-conns"] += st.StreamConns
	if w.Tap != nil {
		w.Tap.mu.Lock()
		res.Segments = w.Tap.segs
		for k, v := range w.Tap.kinds {
			res.Probes["seg:"+k] += v
		}
		if w.Spec.Dump {
			res.Geo = w.Tap.geo
			res.Wire = map[string]string{}
			for k, v := range w.Tap.wire {
				res.Wire[k] = hex.EncodeToString(v)
			}
		}
		w.Tap.mu.Unlock()
	}
	res.Sessions = w.outcomes()
	if w.Spec.KeepLog {
		res.Log = w.Net.LogLines()
	}
}

func sortOutcomes(o []spec.SessionOutcome) {
	sort.Slice(o, func(i, j int) bool {
		if o[i].Client != o[j].Client {
			return o[i].Client < o[j].Client
		}
		return o[i].Session < o[j].Session
	})
}

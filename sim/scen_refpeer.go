package sim

import (
	"context"
	"errors"
	"fmt"
	"io"
	"net"
	"time"

	"github.com/enfein/mieru/v3/apis/model"

	"verifsim/refproto"
	"verifsim/simnet"
	"verifsim/spec"
)

func init() { scenarios["refpeer"] = scenRefPeer }

// scenRefPeer: a reference peer written from docs/protocol.md talks to one real
// endpoint. It carries its own clock (bubble clock + skew, may jump) and uses
// every freedom the document allows (padding lengths, low-entropy parameters,
// payload sizes, ack-only segments). Serves C08 (clock agreement / staleness)
// and C09 direction 2 (a third-party implementation interoperates).
func scenRefPeer(s *spec.RunSpec, res *spec.RunResult, finish func(*World)) {
	if s.Ref == nil {
		res.Harness = append(res.Harness, "refpeer scenario without ref")
		finish(nil)
	}
	// In server mode the reference peer owns the server address: no real server.
	var w *World
	var err error
	if s.Ref.Mode == "server" {
		w, err = NewWorldOpts(s, res, false)
	} else {
		w, err = NewWorld(s, res)
	}
	if err != nil {
		res.Harness = append(res.Harness, "world: "+err.Error())
		finish(nil)
	}
	w.startCap(finish)
	rp := &refPeer{w: w, cfg: s.Ref}
	u := s.Server.Users[s.Ref.User%len(s.Server.Users)]
	rp.cred = refproto.Cred{User: u.Name, Password: u.Password}
	rp.hp = refproto.HashedPassword(rp.cred)
	if s.Ref.Mode == "client" {
		w.Tap.MarkHostile("10.0.2.1:") // not a mieru endpoint: exempt from the wire invariants
		go w.serverAcceptLoop()
		rp.runClient()
		w.srv.Stop()
	} else {
		w.Tap.mu.Lock()
		w.Tap.refServer = true
		w.Tap.mu.Unlock()
		rp.runServer()
		for _, c := range w.clients {
			c.cli.Stop()
		}
	}
	rp.judge()
	w.Res.NonTrivial = w.checks.Load() > 0 && rp.segsSent > 0
	res.Completed = true
	finish(w)
}

type refPeer struct {
	w    *World
	cfg  *spec.RefPeer
	cred refproto.Cred
	hp   [32]byte

	segsSent   int
	segsRecv   int
	handshake  bool // open response (client mode) / open request (server mode) seen
	echoOK     bool // all application bytes came back intact
	echoGot    int64
	echoWant   int64
	failure    string // first thing that went wrong from the reference peer's point of view
	serverSent int    // bytes/datagrams the real endpoint sent to the reference peer
	accepted   bool   // the real server's application got the session (client mode)
	clientErr  string // real client's dial / IO error (server mode)
}

// clock returns the reference peer's clock (unix seconds) for keys and timestamps.
func (rp *refPeer) clock() (keySec, tsSec int64) {
	skew := time.Duration(rp.cfg.SkewUs) * time.Microsecond
	if rp.cfg.JumpAfter > 0 && rp.segsSent >= rp.cfg.JumpAfter {
		skew += time.Duration(rp.cfg.JumpUs) * time.Microsecond
	}
	now := time.Now()
	k, t := now.Add(skew), now.Add(skew)
	if rp.cfg.KeySkewUs != nil {
		k = now.Add(time.Duration(*rp.cfg.KeySkewUs) * time.Microsecond)
	}
	if rp.cfg.TsSkewUs != nil {
		t = now.Add(time.Duration(*rp.cfg.TsSkewUs) * time.Microsecond)
	}
	return k.Unix(), t.Unix()
}

func (rp *refPeer) pad(list []int, i int) []byte {
	if len(list) == 0 {
		return nil
	}
	n := list[i%len(list)]
	b := make([]byte, n)
	for j := range b {
		b[j] = byte(simnet.H(rp.w.Spec.Seed, "pad", uint64(i), uint64(j)))
	}
	return b
}

func (rp *refPeer) leMask(i int) uint32 {
	want := map[int]int{1: 16, 2: 20, 3: 24, 4: 28}[rp.cfg.LEMode]
	var m uint32
	h := simnet.H(rp.w.Spec.Seed, "lemask", uint64(i))
	pos := int(h % 32)
	for n := 0; n < want; {
		if m&(1<<uint(pos)) == 0 {
			m |= 1 << uint(pos)
			n++
		}
		h = simnet.H(h, "x")
		pos = (pos + 1 + int(h%5)) % 32
	}
	return m
}

func (rp *refPeer) fail(format string, a ...any) {
	if rp.failure == "" {
		rp.failure = fmt.Sprintf(format, a...)
	}
}

func (rp *refPeer) maxChunk(udp bool) int {
	mc := rp.cfg.MaxChunk
	if mc <= 0 {
		mc = 32768
	}
	if udp {
		// keep the datagram within 1400 bytes: 88 overhead + paddings + low-entropy expansion
		lim := 1400 - 88 - 255 - 255
		if rp.cfg.LEMode > 0 {
			src, _ := refproto.LEModeSourceBytes(uint8(rp.cfg.LEMode))
			lim = (lim / 8) * src
		}
		if mc > lim {
			mc = lim
		}
	} else if rp.cfg.LEMode == 1 && mc > 32764 {
		mc = 32764
	}
	return mc
}

func socksReqFor(host string) []byte {
	b := []byte{5, 1, 0, 3, byte(len(host))}
	b = append(b, host...)
	return append(b, 0, 80)
}

// dataMeta builds the metadata of a data segment sent by the reference peer.
func (rp *refPeer) dataMeta(clientRole bool, sid, seq, unack uint32, i int) refproto.Meta {
	_, ts := rp.clock()
	m := refproto.Meta{TimestampMin: uint32(ts / 60), SessionID: sid, Seq: seq, UnAckSeq: unack, Window: 4096}
	le := rp.cfg.LEMode > 0
	switch {
	case clientRole && le:
		m.Type = refproto.TypeDataC2SLE
	case clientRole:
		m.Type = refproto.TypeDataC2S
	case le:
		m.Type = refproto.TypeDataS2CLE
	default:
		m.Type = refproto.TypeDataS2C
	}
	if le {
		m.Byte1 = uint8(rp.cfg.LEMode)
		m.LERotation = uint8(rp.cfg.LERot)
		m.LEMask = rp.leMask(i)
	}
	return m
}

// ---------------------------------------------------------------------------
// reference client against the real server

func (rp *refPeer) runClient() {
	w := rp.w
	node := w.Net.Node("10.0.2.1")
	sid := uint32(1 + simnet.H(w.Spec.Seed, "refsid")%0x7fffffff)
	prf := newPRF(w.Spec.Seed, 777, 0)
	var app []byte
	for _, n := range rp.cfg.Writes {
		app = append(app, prf.Bytes(int64(len(app)), n)...)
	}
	rp.echoWant = int64(len(app))
	extra := rp.cfg.PiggybackExtra
	if extra > len(app) {
		extra = len(app)
	}
	req := socksReqFor("echo.sim")
	if len(req)+extra > 1024 {
		extra = 1024 - len(req)
	}
	openPayload := append(append([]byte{}, req...), app[:extra]...)
	rest := app[extra:]
	keySec, tsSec := rp.clock()
	key := refproto.KeyForSlot(rp.hp, refproto.SlotOf(keySec))
	var nonce [24]byte
	for i := range nonce {
		nonce[i] = byte(simnet.H(w.Spec.Seed, "refnonce", uint64(i)))
	}
	srvAddr := net.JoinHostPort(w.Spec.Server.IP, fmt.Sprint(w.Spec.Server.TCPPort))
	udp := rp.cfg.Transport == "udp"
	if udp {
		srvAddr = net.JoinHostPort(w.Spec.Server.IP, fmt.Sprint(w.Spec.Server.UDPPort))
	}
	openMeta := refproto.Meta{Type: refproto.TypeOpenReq, TimestampMin: uint32(tsSec / 60), SessionID: sid, Seq: 0}
	var got []byte // in-order application bytes from the server
	deadline := 40 * time.Second

	if !udp {
		conn, err := node.DialContext(context.Background(), "tcp", srvAddr)
		if err != nil {
			rp.fail("dial: %v", err)
			return
		}
		defer conn.Close()
		enc := refproto.NewStreamEncoder(key, rp.cred.User, nonce)
		dec := refproto.NewStreamDecoderWithKey(key, rp.cred.User, 0)
		send := func(m refproto.Meta, payload []byte, o refproto.EncodeOpts) bool {
			b, err := enc.Encode(m, payload, o)
			if err != nil {
				rp.fail("encode: %v", err)
				return false
			}
			conn.SetWriteDeadline(time.Now().Add(20 * time.Second))
			if _, err := conn.Write(b); err != nil {
				rp.fail("write: %v", err)
				return false
			}
			rp.segsSent++
			return true
		}
		if !send(openMeta, openPayload, refproto.EncodeOpts{Padding2: rp.pad(rp.cfg.Pad2, 0)}) {
			return
		}
		// read the reply stream concurrently (the server echoes while we still send)
		want := 10 + len(app)
		readDone := make(chan struct{})
		var rfail string
		go func() {
			defer close(readDone)
			conn.SetReadDeadline(time.Now().Add(deadline + 60*time.Second))
			buf := make([]byte, 65536)
			for len(got) < want {
				n, err := conn.Read(buf)
				rp.serverSent += n
				if n > 0 {
					segs, derr := dec.Feed(buf[:n], time.Now().Unix())
					for _, sg := range segs {
						rp.segsRecv++
						if sg.Meta.Type == refproto.TypeOpenResp {
							rp.handshake = true
						}
						if sg.Meta.Type == refproto.TypeCloseReq && rfail == "" {
							rfail = fmt.Sprintf("server closed the session (status %d)", sg.Meta.Status)
						}
						got = append(got, sg.Payload...)
					}
					if derr != nil {
						if rfail == "" {
							rfail = fmt.Sprintf("cannot decode the server's reply: %v", derr)
						}
						return
					}
				}
				if err != nil {
					if len(got) < want && rfail == "" {
						rfail = fmt.Sprintf("reply ended early: %v", err)
					}
					return
				}
				if rfail != "" {
					return
				}
			}
		}()
		seq := uint32(1)
		mc := rp.maxChunk(false)
		for i := 0; len(rest) > 0; i++ {
			n := min(len(rest), mc)
			if rp.cfg.AckOnly && i%2 == 1 {
				_, ts := rp.clock()
				am := refproto.Meta{Type: refproto.TypeAckC2S, TimestampMin: uint32(ts / 60), SessionID: sid, Seq: seq - 1, Window: 100}
				if !send(am, nil, refproto.EncodeOpts{Padding1: rp.pad(rp.cfg.Pad1, i), Padding2: rp.pad(rp.cfg.Pad2, i)}) {
					break
				}
			}
			m := rp.dataMeta(true, sid, seq, 0, i)
			if !send(m, rest[:n], refproto.EncodeOpts{Padding1: rp.pad(rp.cfg.Pad1, i+1), Padding2: rp.pad(rp.cfg.Pad2, i+1), LEPadBit: uint8(rp.cfg.LEPadBit)}) {
				break
			}
			rest = rest[n:]
			seq++
			time.Sleep(time.Millisecond)
		}
		select {
		case <-readDone:
		case <-time.After(deadline):
			conn.SetReadDeadline(time.Now())
			<-readDone
		}
		if rfail != "" {
			rp.fail("%s", rfail)
		}
		if rp.failure == "" {
			_, ts := rp.clock()
			send(refproto.Meta{Type: refproto.TypeCloseReq, TimestampMin: uint32(ts / 60), SessionID: sid, Seq: seq}, nil, refproto.EncodeOpts{})
			time.Sleep(200 * time.Millisecond)
		}
	} else {
		pc, err := simnet.PacketDialer{Node: node}.ListenPacket(context.Background(), "udp", "", srvAddr)
		if err != nil {
			rp.fail("listen: %v", err)
			return
		}
		defer pc.Close()
		host, portStr, _ := net.SplitHostPort(srvAddr)
		var port int
		fmt.Sscan(portStr, &port)
		dst := &net.UDPAddr{IP: net.ParseIP(host), Port: port}
		nextRecv := uint32(0)
		nidx := 0
		send := func(m refproto.Meta, payload []byte, o refproto.EncodeOpts) bool {
			ks, _ := rp.clock()
			k := refproto.KeyForSlot(rp.hp, refproto.SlotOf(ks))
			var nn [24]byte
			for i := range nn {
				nn[i] = byte(simnet.H(w.Spec.Seed, "refnonce-udp", uint64(nidx), uint64(i)))
			}
			nidx++
			b, err := refproto.EncodeDatagram(k, rp.cred.User, nn, m, payload, o)
			if err != nil {
				rp.fail("encode: %v", err)
				return false
			}
			pc.WriteTo(b, dst)
			rp.segsSent++
			return true
		}
		// receive everything that is pending, ack in-order data
		recvFor := func(d time.Duration) {
			pc.SetReadDeadline(time.Now().Add(d))
			buf := make([]byte, 2048)
			for {
				n, _, err := pc.ReadFrom(buf)
				if err != nil {
					return
				}
				rp.serverSent++
				var sg *refproto.Segment
				for _, slot := range refproto.CandidateSlots(time.Now().Unix()) {
					if s2, derr := refproto.DecodeDatagramWithKey(buf[:n], refproto.KeyForSlot(rp.hp, slot)); derr == nil {
						sg = s2
						break
					}
				}
				if sg == nil {
					rp.fail("cannot decode a datagram from the server (%d bytes)", n)
					continue
				}
				rp.segsRecv++
				switch sg.Meta.Type {
				case refproto.TypeOpenResp, refproto.TypeDataS2C, refproto.TypeDataS2CLE:
					if sg.Meta.Type == refproto.TypeOpenResp {
						rp.handshake = true
					}
					if sg.Meta.Seq == nextRecv {
						got = append(got, sg.Payload...)
						nextRecv++
					}
					_, ts := rp.clock()
					am := refproto.Meta{Type: refproto.TypeAckC2S, TimestampMin: uint32(ts / 60), SessionID: sid, Seq: 0, UnAckSeq: nextRecv, Window: 4096}
					send(am, nil, refproto.EncodeOpts{Padding2: rp.pad(rp.cfg.Pad2, int(nextRecv))})
				case refproto.TypeCloseReq:
					rp.fail("server closed the session (status %d)", sg.Meta.Status)
					return
				}
				pc.SetReadDeadline(time.Now().Add(d))
			}
		}
		if !send(openMeta, openPayload, refproto.EncodeOpts{Padding2: rp.pad(rp.cfg.Pad2, 0)}) {
			return
		}
		recvFor(3 * time.Second)
		if !rp.handshake {
			rp.fail("no open response within 3 s")
		}
		seq := uint32(1)
		mc := rp.maxChunk(true)
		for i := 0; len(rest) > 0 && rp.failure == ""; i++ {
			n := min(len(rest), mc)
			m := rp.dataMeta(true, sid, seq, nextRecv, i)
			if !send(m, rest[:n], refproto.EncodeOpts{Padding1: rp.pad(rp.cfg.Pad1, i+1), Padding2: rp.pad(rp.cfg.Pad2, i+1), LEPadBit: uint8(rp.cfg.LEPadBit)}) {
				return
			}
			rest = rest[n:]
			seq++
			recvFor(5 * time.Millisecond)
		}
		want := 10 + len(app)
		for tries := 0; tries < 40 && len(got) < want && rp.failure == ""; tries++ {
			recvFor(500 * time.Millisecond)
		}
		if rp.failure == "" {
			_, ts := rp.clock()
			send(refproto.Meta{Type: refproto.TypeCloseReq, TimestampMin: uint32(ts / 60), SessionID: sid, Seq: seq}, nil, refproto.EncodeOpts{})
			recvFor(300 * time.Millisecond)
		}
	}
	// compare: SOCKS reply (10 bytes) followed by the echo of app
	if len(got) >= 10 {
		rp.echoGot = int64(len(got) - 10)
		if string(got[10:]) == string(app) && got[0] == 5 && got[1] == 0 {
			rp.echoOK = true
		} else if len(got) == 10+len(app) {
			rp.fail("echo differs from what was sent")
		}
	}
	w.mu.Lock()
	rp.accepted = w.probes["echo-accepted"] > 0
	w.mu.Unlock()
}

// echoServe is the real server's application for the reference client.
func (w *World) echoServe(conn net.Conn, req *model.Request) {
	w.probe("echo-accepted")
	resp := &model.Response{Reply: 0, BindAddr: model.AddrSpec{IP: net.IPv4zero, Port: 0}}
	if err := resp.WriteToSocks5(conn); err != nil {
		return
	}
	buf := make([]byte, 32768)
	for {
		n, err := conn.Read(buf)
		if n > 0 {
			if _, werr := conn.Write(buf[:n]); werr != nil {
				break
			}
		}
		if err != nil {
			break
		}
	}
	conn.Close()
}

// ---------------------------------------------------------------------------
// real client against the reference server

func (rp *refPeer) runServer() {
	w := rp.w
	node := w.Net.Node(w.Spec.Server.IP)
	done := make(chan struct{})
	if rp.cfg.Transport == "tcp" {
		ln, err := node.Listen(context.Background(), "tcp", net.JoinHostPort("0.0.0.0", fmt.Sprint(w.Spec.Server.TCPPort)))
		if err != nil {
			rp.fail("listen: %v", err)
			return
		}
		defer ln.Close()
		go func() {
			for {
				c, err := ln.Accept()
				if err != nil {
					return
				}
				go rp.serveTCP(c)
			}
		}()
	} else {
		pc, err := node.ListenPacket(context.Background(), "udp", net.JoinHostPort("0.0.0.0", fmt.Sprint(w.Spec.Server.UDPPort)))
		if err != nil {
			rp.fail("listen: %v", err)
			return
		}
		defer pc.Close()
		go rp.serveUDP(pc, done)
	}
	// the real client's application: dial, write PRF, read the echo
	c := w.clients[0]
	prf := newPRF(w.Spec.Seed, 888, 0)
	conn, err := w.dial(c, "echo", false)
	if err != nil {
		rp.clientErr = "dial: " + err.Error()
		if conn != nil {
			conn.Close()
		}
		close(done)
		return
	}
	var total int64
	for _, n := range rp.cfg.Writes {
		total += int64(n)
	}
	rp.echoWant = total
	go func() {
		var off int64
		for _, n := range rp.cfg.Writes {
			if _, err := conn.Write(prf.Bytes(off, n)); err != nil {
				if rp.clientErr == "" {
					rp.clientErr = "write: " + err.Error()
				}
				return
			}
			off += int64(n)
			time.Sleep(time.Millisecond)
		}
	}()
	buf := make([]byte, 65536)
	var got int64
	ok := true
	for got < total {
		conn.SetReadDeadline(time.Now().Add(30 * time.Second))
		n, err := conn.Read(buf)
		if n > 0 {
			w.addCheck(1)
			if !prf.Matches(buf[:n], got) {
				ok = false
				w.violate("C09", "reference-server-echo-altered", "real client read %d bytes at offset %d that differ from what it sent (reference server echoes verbatim)", n, got)
			}
			got += int64(n)
		}
		if err != nil {
			if isTimeout(err) && got > 0 {
				continue
			}
			if rp.clientErr == "" {
				rp.clientErr = "read: " + err.Error()
			}
			break
		}
	}
	rp.echoGot = got
	rp.echoOK = ok && got == total
	conn.Close()
	time.Sleep(300 * time.Millisecond)
	close(done)
}

// findKey tries the registered credential over a wide range of slots around the true time.
func (rp *refPeer) openFirst(b []byte) (key [32]byte, ok bool) {
	now := time.Now().Unix()
	for d := int64(-360); d <= 360; d += 120 {
		k := refproto.KeyForSlot(rp.hp, refproto.SlotOf(now+d))
		if len(b) >= 72 {
			if _, err := refproto.DecodeDatagramWithKey(b[:72], k); err == nil || !errors.Is(err, refproto.ErrAuthMeta) {
				return k, true
			}
		}
	}
	return key, false
}

// openRespPayload: what a server that piggybacks on its open-session response puts there. It
// consumes the SOCKS request from reqBuf (if complete) and returns reply + first echo bytes.
func (rp *refPeer) openRespPayload(reqBuf *[]byte, replied *bool) []byte {
	if !rp.cfg.OpenRespPayload || *replied {
		return nil
	}
	b := *reqBuf
	if len(b) < 5 || len(b) < 7+int(b[4]) {
		return nil
	}
	b = b[7+int(b[4]):]
	out := []byte{5, 0, 0, 1, 0, 0, 0, 0, 0, 0}
	k := min(len(b), 1024-len(out))
	out = append(out, b[:k]...)
	*reqBuf = b[k:]
	*replied = true
	rp.w.probe("ref-server-open-response-carries-payload")
	return out
}

func (rp *refPeer) serveTCP(c net.Conn) {
	defer c.Close()
	var first []byte
	buf := make([]byte, 65536)
	for len(first) < 72 {
		c.SetReadDeadline(time.Now().Add(30 * time.Second))
		n, err := c.Read(buf)
		first = append(first, buf[:n]...)
		if err != nil {
			return
		}
	}
	key, ok := rp.openFirst(first)
	if !ok {
		rp.fail("reference server cannot authenticate the client's first segment with the registered credential within +-6 min")
		return
	}
	dec := refproto.NewStreamDecoderWithKey(key, rp.cred.User, 0)
	var nonce [24]byte
	for i := range nonce {
		nonce[i] = byte(simnet.H(rp.w.Spec.Seed, "refsrv-nonce", uint64(i)))
	}
	enc := refproto.NewStreamEncoder(key, rp.cred.User, nonce)
	seq := uint32(0)
	i := 0
	send := func(m refproto.Meta, payload []byte, o refproto.EncodeOpts) bool {
		b, err := enc.Encode(m, payload, o)
		if err != nil {
			rp.fail("encode: %v", err)
			return false
		}
		if _, err := c.Write(b); err != nil {
			return false
		}
		rp.segsSent++
		return true
	}
	var reqBuf []byte
	replied := false
	pending := first
	for {
		segs, derr := dec.Feed(pending, time.Now().Unix())
		for _, sg := range segs {
			rp.segsRecv++
			_, ts := rp.clock()
			switch sg.Meta.Type {
			case refproto.TypeOpenReq:
				rp.handshake = true
				reqBuf = append(reqBuf, sg.Payload...)
				if !send(refproto.Meta{Type: refproto.TypeOpenResp, TimestampMin: uint32(ts / 60), SessionID: sg.Meta.SessionID, Seq: seq}, rp.openRespPayload(&reqBuf, &replied), refproto.EncodeOpts{Padding2: rp.pad(rp.cfg.Pad2, i)}) {
					return
				}
				seq++
			case refproto.TypeDataC2S, refproto.TypeDataC2SLE:
				reqBuf = append(reqBuf, sg.Payload...)
			case refproto.TypeCloseReq:
				send(refproto.Meta{Type: refproto.TypeCloseResp, TimestampMin: uint32(ts / 60), SessionID: sg.Meta.SessionID, Seq: seq}, nil, refproto.EncodeOpts{})
				return
			}
			sid := sg.Meta.SessionID
			// answer the SOCKS request once it is complete, then echo
			if !replied && len(reqBuf) >= 5 && len(reqBuf) >= 7+int(reqBuf[4]) {
				l := 7 + int(reqBuf[4])
				reqBuf = reqBuf[l:]
				replied = true
				m := rp.dataMeta(false, sid, seq, 0, i)
				if !send(m, []byte{5, 0, 0, 1, 0, 0, 0, 0, 0, 0}, refproto.EncodeOpts{Padding1: rp.pad(rp.cfg.Pad1, i), Padding2: rp.pad(rp.cfg.Pad2, i), LEPadBit: uint8(rp.cfg.LEPadBit)}) {
					return
				}
				seq++
				i++
			}
			mc := rp.maxChunk(false)
			for replied && len(reqBuf) > 0 {
				n := min(len(reqBuf), mc)
				if rp.cfg.AckOnly && i%3 == 1 {
					_, ts2 := rp.clock()
					send(refproto.Meta{Type: refproto.TypeAckS2C, TimestampMin: uint32(ts2 / 60), SessionID: sid, Seq: seq - 1, Window: 100}, nil, refproto.EncodeOpts{Padding1: rp.pad(rp.cfg.Pad1, i), Padding2: rp.pad(rp.cfg.Pad2, i)})
				}
				m := rp.dataMeta(false, sid, seq, 0, i)
				if !send(m, reqBuf[:n], refproto.EncodeOpts{Padding1: rp.pad(rp.cfg.Pad1, i), Padding2: rp.pad(rp.cfg.Pad2, i), LEPadBit: uint8(rp.cfg.LEPadBit)}) {
					return
				}
				reqBuf = reqBuf[n:]
				seq++
				i++
			}
		}
		if derr != nil {
			rp.fail("reference server cannot decode the client's stream: %v", derr)
			rp.w.violate("C09", "client-stream-undecodable-by-reference-server", "%v", derr)
			return
		}
		c.SetReadDeadline(time.Now().Add(60 * time.Second))
		n, err := c.Read(buf)
		if err != nil {
			if err != io.EOF && n == 0 {
				return
			}
			if n == 0 {
				return
			}
		}
		pending = buf[:n]
	}
}

func (rp *refPeer) serveUDP(pc net.PacketConn, done chan struct{}) {
	buf := make([]byte, 2048)
	var key [32]byte
	haveKey := false
	nextRecv := uint32(0)
	seq := uint32(0)
	var reqBuf []byte
	replied := false
	nidx := 0
	i := 0
	type unacked struct {
		m       refproto.Meta
		payload []byte
		o       refproto.EncodeOpts
		at      time.Time
	}
	var inflight []unacked
	var peer net.Addr
	send := func(m refproto.Meta, payload []byte, o refproto.EncodeOpts, track bool) {
		var nn [24]byte
		for j := range nn {
			nn[j] = byte(simnet.H(rp.w.Spec.Seed, "refsrv-nonce-udp", uint64(nidx), uint64(j)))
		}
		nidx++
		_, ts := rp.clock()
		m.TimestampMin = uint32(ts / 60)
		b, err := refproto.EncodeDatagram(key, rp.cred.User, nn, m, payload, o)
		if err != nil {
			rp.fail("encode: %v", err)
			return
		}
		pc.WriteTo(b, peer)
		rp.segsSent++
		if track {
			inflight = append(inflight, unacked{m, payload, o, time.Now()})
		}
	}
	for {
		select {
		case <-done:
			return
		default:
		}
		pc.SetReadDeadline(time.Now().Add(200 * time.Millisecond))
		n, from, err := pc.ReadFrom(buf)
		if err != nil {
			// retransmit what the client has not acknowledged for a second
			for k := range inflight {
				if time.Since(inflight[k].at) > time.Second {
					u := inflight[k]
					inflight[k].at = time.Now()
					send(u.m, u.payload, u.o, false)
				}
			}
			continue
		}
		peer = from
		if !haveKey {
			k, ok := rp.openFirst(buf[:n])
			if !ok {
				rp.fail("reference server cannot authenticate the client's first datagram")
				continue
			}
			key, haveKey = k, true
		}
		sg, derr := refproto.DecodeDatagramWithKey(buf[:n], key)
		if derr != nil {
			// the client may have moved to the next key slot
			for d := int64(-240); d <= 240 && sg == nil; d += 120 {
				if s2, e2 := refproto.DecodeDatagramWithKey(buf[:n], refproto.KeyForSlot(rp.hp, refproto.SlotOf(time.Now().Unix()+d))); e2 == nil {
					sg = s2
				}
			}
			if sg == nil {
				rp.fail("reference server cannot decode a client datagram: %v", derr)
				rp.w.violate("C09", "client-datagram-undecodable-by-reference-server", "%v", derr)
				continue
			}
		}
		rp.segsRecv++
		sid := sg.Meta.SessionID
		// acks release in-flight segments
		if sg.Meta.IsDataAck() {
			keep := inflight[:0]
			for _, u := range inflight {
				if u.m.Seq >= sg.Meta.UnAckSeq {
					keep = append(keep, u)
				}
			}
			inflight = keep
		}
		switch sg.Meta.Type {
		case refproto.TypeOpenReq:
			if sg.Meta.Seq == nextRecv {
				rp.handshake = true
				nextRecv++
				reqBuf = append(reqBuf, sg.Payload...)
				send(refproto.Meta{Type: refproto.TypeOpenResp, SessionID: sid, Seq: seq}, rp.openRespPayload(&reqBuf, &replied), refproto.EncodeOpts{Padding2: rp.pad(rp.cfg.Pad2, i)}, true)
				seq++
			}
		case refproto.TypeDataC2S, refproto.TypeDataC2SLE:
			if sg.Meta.Seq == nextRecv {
				nextRecv++
				reqBuf = append(reqBuf, sg.Payload...)
			}
		case refproto.TypeCloseReq:
			send(refproto.Meta{Type: refproto.TypeCloseResp, SessionID: sid, Seq: seq}, nil, refproto.EncodeOpts{}, false)
			continue
		}
		if !replied && len(reqBuf) >= 5 && len(reqBuf) >= 7+int(reqBuf[4]) {
			reqBuf = reqBuf[7+int(reqBuf[4]):]
			replied = true
			m := rp.dataMeta(false, sid, seq, nextRecv, i)
			send(m, []byte{5, 0, 0, 1, 0, 0, 0, 0, 0, 0}, refproto.EncodeOpts{Padding1: rp.pad(rp.cfg.Pad1, i), Padding2: rp.pad(rp.cfg.Pad2, i), LEPadBit: uint8(rp.cfg.LEPadBit)}, true)
			seq++
			i++
		}
		mc := rp.maxChunk(true)
		sentData := false
		for replied && len(reqBuf) > 0 {
			k := min(len(reqBuf), mc)
			m := rp.dataMeta(false, sid, seq, nextRecv, i)
			send(m, reqBuf[:k], refproto.EncodeOpts{Padding1: rp.pad(rp.cfg.Pad1, i), Padding2: rp.pad(rp.cfg.Pad2, i), LEPadBit: uint8(rp.cfg.LEPadBit)}, true)
			reqBuf = reqBuf[k:]
			seq++
			i++
			sentData = true
		}
		if !sentData && (sg.Meta.Type == refproto.TypeDataC2S || sg.Meta.Type == refproto.TypeDataC2SLE || sg.Meta.Type == refproto.TypeOpenReq) {
			send(refproto.Meta{Type: refproto.TypeAckS2C, SessionID: sid, Seq: seq - 1, UnAckSeq: nextRecv, Window: 4096}, nil, refproto.EncodeOpts{Padding2: rp.pad(rp.cfg.Pad2, i)}, false)
		}
	}
}

// judge compares what happened with what the property demands.
func (rp *refPeer) judge() {
	w := rp.w
	w.addCheck(1)
	cfg := rp.cfg
	prop := w.Spec.Property
	w.mu.Lock()
	w.probes["ref-"+cfg.Mode+"-"+cfg.Transport+"-"+cfg.Expect]++
	w.probes["ref-segments-sent"] += rp.segsSent
	w.probes["ref-segments-received"] += rp.segsRecv
	w.mu.Unlock()
	desc := fmt.Sprintf("reference %s over %s, clock skew %v (key %v, timestamp %v), jump %v after %d segments, LE mode %d rot %d", cfg.Mode, cfg.Transport,
		time.Duration(cfg.SkewUs)*time.Microsecond, optDur(cfg.KeySkewUs), optDur(cfg.TsSkewUs), time.Duration(cfg.JumpUs)*time.Microsecond, cfg.JumpAfter, cfg.LEMode, cfg.LERot)
	switch cfg.Expect {
	case "accept":
		if cfg.Mode == "client" {
			if !rp.echoOK {
				w.violate(prop, "reference-client-not-served:"+cfg.Transport, "%s: handshake=%v, echoed %d of %d bytes, server accepted=%v; first failure: %s", desc, rp.handshake, rp.echoGot, rp.echoWant, rp.accepted, rp.failure)
			}
		} else {
			if !rp.echoOK {
				w.violate(prop, "real-client-rejects-reference-server:"+cfg.Transport, "%s: reference server saw open request=%v, client got %d of %d bytes back; client error: %q; reference server: %s", desc, rp.handshake, rp.echoGot, rp.echoWant, rp.clientErr, rp.failure)
			}
		}
	case "refuse":
		if cfg.Mode == "client" {
			if rp.serverSent > 0 || rp.accepted || rp.handshake {
				w.violate(prop, "stale-reference-client-accepted:"+cfg.Transport, "%s: the server sent %d bytes/datagrams back, open response=%v, application got the session=%v", desc, rp.serverSent, rp.handshake, rp.accepted)
			}
		} else {
			if rp.echoGot > 0 || (rp.clientErr == "" && rp.echoWant > 0 && rp.echoOK) {
				w.violate(prop, "real-client-accepts-stale-server:"+cfg.Transport, "%s: the client accepted replies stamped two or more minutes away (%d bytes delivered to the application)", desc, rp.echoGot)
			}
		}
	}
}

func optDur(p *int64) string {
	if p == nil {
		return "same"
	}
	return (time.Duration(*p) * time.Microsecond).String()
}

package sim

import (
	"encoding/hex"
	"fmt"
	"net"
	"strings"
	"sync"
	"time"

	"github.com/enfein/mieru/v3/apis/model"
	"github.com/enfein/mieru/v3/apis/trafficpattern"
	"github.com/enfein/mieru/v3/pkg/appctl/appctlpb"

	"verifsim/refproto"
	"verifsim/simnet"
	"verifsim/spec"
)

// Tap decodes everything that crosses the simulated network with the
// independent reference codec (package refproto, written from docs/protocol.md
// only) and evaluates the wire-level invariants:
//
//	C09  every emitted segment decodes under the sender's credential
//	C13  acks never ahead of receipt; retransmissions identical; gapless seq
//	C14  datagram <= MTU; lengths within their fields
//	C16  explicit traffic-pattern values visible on the wire
//
// It also gives the fault plan a decoded view (targeted faults) and the stream
// oracles a cause for what they see.
type Tap struct {
	w     *World
	mu    sync.Mutex
	creds []refproto.Cred
	keys  map[string][32]byte // "user/slot"

	peeked   map[int]*refproto.Segment
	streams  map[int]*streamTap
	sess     map[string]*sessTap // flow-or-conn "/" sessionID
	flowSeen map[string]int      // datagrams seen per flow/dir
	segs     int
	lastKey  map[string][32]byte // flow -> key that last decoded
	lastUser map[string]string

	eff              map[string]*appctlpb.TrafficPattern // "s" or "c<i>" -> effective pattern
	orig             map[string]*appctlpb.TrafficPattern
	mtu              map[string]int
	attack           map[string]bool // flows / conn addrs that belong to attackers (not real endpoints)
	hostile          map[string]bool
	hostileOpened    int
	undelivered      map[string]bool // datagrams (flow/dir/index) the fault plan dropped
	hostileFirstOpen time.Duration   // virtual time of the first hostile session the server answered
	replied          map[string]int  // bytes/datagrams sent by the server towards an attacker flow
	kinds            map[string]int  // segment kinds seen (reach)
	geo              []spec.SegGeo
	record           bool
	refServer        bool // the server address belongs to a reference peer, not to mieru
	wire             map[string][]byte
}

type streamTap struct {
	info      *simnet.ConnInfo
	dec       [2]*refproto.StreamDecoder
	failed    [2]bool
	client    int
	writes    [2][]writeRec // accepted write calls per dir (offset, len)
	nonceSeen [2]bool
}

type writeRec struct {
	off int64
	n   int
}

type txRec struct {
	typ      uint8
	fragment uint8
	phash    uint32
	plen     int
	count    int
}

type sessTap struct {
	id                uint32
	flow              string
	client            int
	udp               bool
	tx                [2]map[uint32]*txRec // first transmissions of open/data per dir
	nextNew           [2]uint32
	delivered         [2]map[uint32]bool
	contig            [2]uint32 // number of in-order seqs delivered (0..contig-1 all delivered)
	maxAckBy          [2]uint32 // highest unAckSeq emitted by the receiver of dir
	clientLE          bool      // client sent a low-entropy data segment on this session (delivered or not: emitted)
	clientLEDelivered bool
	head              []byte // first bytes of the in-order c2s stream (to find the SOCKS request)
	headNext          uint32
	key               string  // harness session key once known
	closeGap          [2]bool // a close request from dir's sender was delivered while earlier data was missing
	closeSeen         [2]bool
	dropped           [2]int
	hsDone            bool // the first server data segment (the SOCKS reply) reached the client
	quotaClose        bool // the server sent a close request with the quota-exhausted status
}

func newTap(w *World) *Tap {
	simStart = w.start
	t := &Tap{w: w, keys: map[string][32]byte{}, peeked: map[int]*refproto.Segment{}, streams: map[int]*streamTap{},
		sess: map[string]*sessTap{}, flowSeen: map[string]int{}, lastKey: map[string][32]byte{}, lastUser: map[string]string{},
		eff: map[string]*appctlpb.TrafficPattern{}, orig: map[string]*appctlpb.TrafficPattern{}, mtu: map[string]int{},
		attack: map[string]bool{}, replied: map[string]int{}, kinds: map[string]int{}, wire: map[string][]byte{}, undelivered: map[string]bool{}, record: w.Spec.Dump || w.Spec.Attack != nil}
	for _, u := range w.Spec.Server.Users {
		t.creds = append(t.creds, refproto.Cred{User: u.Name, Password: u.Password})
	}
	reg := func(name string, p *appctlpb.TrafficPattern, mtu int) {
		if mtu == 0 {
			mtu = 1400
		}
		t.mtu[name] = mtu
		t.orig[name] = p
		cfg, err := trafficpattern.NewConfig(p)
		if err == nil {
			t.eff[name] = cfg.Effective()
		}
		w.checkPatternConfig(name, p)
	}
	reg("s", toPattern(w.Spec.Server.Pattern), w.Spec.Server.MTU)
	for i := range w.Spec.Clients {
		reg(fmt.Sprintf("c%d", i), toPattern(w.Spec.Clients[i].Pattern), w.Spec.Clients[i].MTU)
	}
	return t
}

func (t *Tap) unixNow() int64 { return time.Now().Unix() }

func (t *Tap) keyFor(c refproto.Cred, slot int64) [32]byte {
	k := fmt.Sprintf("%s/%d", c.User, slot)
	if v, ok := t.keys[k]; ok {
		return v
	}
	v := refproto.KeyForSlot(refproto.HashedPassword(c), slot)
	t.keys[k] = v
	return v
}

func (t *Tap) clientOfAddr(addr string) int {
	for i := range t.w.Spec.Clients {
		if strings.HasPrefix(addr, t.w.Spec.Clients[i].IP+":") {
			return i
		}
	}
	return -1
}

func (t *Tap) senderName(flow string, dir simnet.Dir) string {
	if dir == simnet.S2C {
		return "s"
	}
	if ci := t.clientOfAddr(flow); ci >= 0 {
		return fmt.Sprintf("c%d", ci)
	}
	return ""
}

// MarkAttacker declares that an address (ip prefix "ip:") belongs to an
// attacker actor: its emissions are not held to the wire-format invariants,
// and anything the server sends towards it is counted.
func (t *Tap) MarkAttacker(ipPrefix string) {
	t.mu.Lock()
	t.attack[ipPrefix] = true
	t.mu.Unlock()
}

func (t *Tap) isAttacker(addr string) bool {
	for p := range t.attack {
		if strings.HasPrefix(addr, p) {
			return true
		}
	}
	return false
}

// RepliesTo reports how much the server sent towards addresses with the prefix.
func (t *Tap) RepliesTo(ipPrefix string) int {
	t.mu.Lock()
	defer t.mu.Unlock()
	n := 0
	for a, c := range t.replied {
		if strings.HasPrefix(a, ipPrefix) {
			n += c
		}
	}
	return n
}

// decodeDatagram tries the flow's last good key first, then every credential
// and candidate slot.
func (t *Tap) decodeDatagram(flow string, b []byte) (*refproto.Segment, string) {
	if k, ok := t.lastKey[flow]; ok {
		if s, err := refproto.DecodeDatagramWithKey(b, k); err == nil {
			s.User = t.lastUser[flow]
			s.HintOK = refproto.HintMatches(s.User, s.Nonce[:])
			return s, ""
		}
	}
	var lastErr string
	now := t.unixNow()
	for _, c := range t.creds {
		for _, slot := range refproto.CandidateSlots(now) {
			k := t.keyFor(c, slot)
			s, err := refproto.DecodeDatagramWithKey(b, k)
			if err == nil {
				s.User = c.User
				s.Slot = slot
				s.HintOK = refproto.HintMatches(c.User, s.Nonce[:])
				t.lastKey[flow] = k
				t.lastUser[flow] = c.User
				return s, ""
			}
			lastErr = err.Error()
		}
	}
	return nil, lastErr
}

// peek decodes a datagram once (memoised by id).
func (t *Tap) peek(d *simnet.Datagram) *refproto.Segment {
	if t.foreignAddr(d.Src) && t.foreignAddr(d.Dst) {
		return nil
	}
	t.mu.Lock()
	defer t.mu.Unlock()
	if s, ok := t.peeked[d.ID]; ok {
		return s
	}
	s, _ := t.decodeDatagram(d.Flow, d.Data)
	t.peeked[d.ID] = s
	return s
}

func (t *Tap) sessFor(scope string, id uint32, udp bool, client int) *sessTap {
	k := fmt.Sprintf("%s/%d", scope, id)
	s := t.sess[k]
	if s == nil {
		s = &sessTap{id: id, flow: scope, udp: udp, client: client}
		for d := 0; d < 2; d++ {
			s.tx[d] = map[uint32]*txRec{}
			s.delivered[d] = map[uint32]bool{}
		}
		t.sess[k] = s
	}
	return s
}

func isSeqType(typ uint8) bool {
	switch typ {
	case refproto.TypeOpenReq, refproto.TypeOpenResp, refproto.TypeDataC2S, refproto.TypeDataS2C, refproto.TypeDataC2SLE, refproto.TypeDataS2CLE:
		return true
	}
	return false
}

func isDataAckType(typ uint8) bool {
	return typ >= refproto.TypeDataC2S && typ <= refproto.TypeDataS2CLE
}

func kindName(typ uint8) string {
	switch typ {
	case refproto.TypeOpenReq:
		return "openReq"
	case refproto.TypeOpenResp:
		return "openResp"
	case refproto.TypeCloseReq:
		return "closeReq"
	case refproto.TypeCloseResp:
		return "closeResp"
	case refproto.TypeDataC2S:
		return "dataC2S"
	case refproto.TypeDataS2C:
		return "dataS2C"
	case refproto.TypeAckC2S:
		return "ackC2S"
	case refproto.TypeAckS2C:
		return "ackS2C"
	case refproto.TypeDataC2SLE:
		return "dataC2SLE"
	case refproto.TypeDataS2CLE:
		return "dataS2CLE"
	}
	return fmt.Sprintf("type%d", typ)
}

// ---------------------------------------------------------------------------
// simnet.Tap implementation

// foreignAddr: the address is not one of the mieru server's endpoints, so the
// traffic is not mieru's (destinations, SOCKS5 front ends, egress proxies).
func (t *Tap) foreignAddr(addr string) bool {
	s := &t.w.Spec.Server
	if addr == net.JoinHostPort(s.IP, fmt.Sprint(s.TCPPort)) || addr == net.JoinHostPort(s.IP, fmt.Sprint(s.UDPPort)) {
		return false
	}
	for _, pt := range append(append([]int{}, s.ExtraTCPPorts...), s.ExtraUDPPorts...) {
		if addr == net.JoinHostPort(s.IP, fmt.Sprint(pt)) {
			return false
		}
	}
	return true
}

func (t *Tap) StreamOpen(c *simnet.ConnInfo) {
	if t.foreignAddr(c.ServerAddr) {
		return
	}
	t.mu.Lock()
	defer t.mu.Unlock()
	st := &streamTap{info: c, client: t.clientOfAddr(c.ClientAddr)}
	st.dec[0] = refproto.NewStreamDecoder(t.creds)
	t.streams[c.ID] = st
}

func (t *Tap) StreamEnd(c *simnet.ConnInfo, dir simnet.Dir, kind string) {}

func (t *Tap) StreamBytes(c *simnet.ConnInfo, dir simnet.Dir, off int64, b []byte) {
	t.mu.Lock()
	st := t.streams[c.ID]
	if st == nil {
		t.mu.Unlock()
		return
	}
	attacker := t.isAttacker(c.ClientAddr) || (t.refServer && dir == simnet.S2C)
	if attacker {
		if dir == simnet.S2C {
			if t.replied[c.ClientAddr] == 0 && t.isHostileAddr(c.ClientAddr) {
				if t.hostileOpened == 0 {
					t.hostileFirstOpen = time.Duration(t.w.nowUs()) * time.Microsecond
				}
				t.hostileOpened++
			}
			t.replied[c.ClientAddr] += len(b)
		}
		t.mu.Unlock()
		return
	}
	st.writes[dir] = append(st.writes[dir], writeRec{off, len(b)})
	if st.failed[dir] {
		t.mu.Unlock()
		return
	}
	if dir == simnet.S2C && st.dec[1] == nil {
		key, user, slot, ok := st.dec[0].Key()
		if !ok && t.w.connTampered(c.ID) {
			st.failed[1] = true
			t.mu.Unlock()
			return
		}
		if !ok {
			st.failed[1] = true
			t.mu.Unlock()
			t.w.violate("C09", "server-sent-before-client-key", "conn #%d: server emitted %d bytes before any client segment was decodable", c.ID, len(b))
			return
		}
		st.dec[1] = refproto.NewStreamDecoderWithKey(key, user, slot)
	}
	segs, err := st.dec[dir].Feed(b, t.unixNow())
	var todo []func()
	if t.record {
		k := fmt.Sprintf("tcp#%d/%d", c.ID, dir)
		if len(t.wire[k]) < 1<<20 {
			t.wire[k] = append(t.wire[k], b...)
		}
	}
	for _, s := range segs {
		t.segs++
		t.kinds[kindName(s.Meta.Type)+"/tcp"]++
		if t.record {
			t.geo = append(t.geo, geoOf(s, fmt.Sprintf("tcp#%d", c.ID), st.client, c.ID, int(dir), -1))
		}
		if s.HasNonce && !s.HintOK {
			cid, d, u, n := c.ID, dir, s.User, s.Nonce
			todo = append(todo, func() {
				t.w.violate("C09", "nonce-without-documented-user-hint", "conn #%d %s: the nonce % x does not end in the first 4 bytes of SHA-256(user || nonce[0:16]) for user %q (%d-byte name)", cid, d, n[:], u, len(u))
			})
		}
		todo = append(todo, t.onStreamSegment(st, dir, s)...)
	}
	if err != nil && t.w.connTampered(c.ID) {
		st.failed[dir] = true
		t.w.probe("tap-gave-up-on-tampered-conn")
	} else if err != nil {
		st.failed[dir] = true
		cid, d, e, o := c.ID, dir, err.Error(), st.dec[dir].Offset()
		todo = append(todo, func() {
			t.w.violate("C09", "undecodable-stream", "conn #%d %s: reference decoder failed at stream offset %d: %s", cid, d, o, e)
		})
	}
	t.mu.Unlock()
	for _, f := range todo {
		f()
	}
}

// onStreamSegment checks one TCP segment. Caller holds t.mu; returned closures
// (violations) run after unlock.
func (t *Tap) onStreamSegment(st *streamTap, dir simnet.Dir, s *refproto.Segment) []func() {
	var out []func()
	w := t.w
	w.checks.Add(1)
	name := "s"
	if dir == simnet.C2S {
		name = fmt.Sprintf("c%d", st.client)
	}
	scope := fmt.Sprintf("tcp#%d", st.info.ID)
	ss := t.sessFor(scope, s.Meta.SessionID, false, st.client)
	out = append(out, t.commonSegmentChecks(name, ss, int(dir), s, false)...)
	// C16: nonce pattern on the single TCP nonce of this direction
	if s.HasNonce {
		out = append(out, t.checkNonce(name, s.Nonce[:], fmt.Sprintf("conn #%d %s", st.info.ID, dir))...)
	}
	// C16: TCP fragmentation of session segments
	if s.Meta.IsSession() {
		o := t.orig[name]
		if o != nil && o.TcpFragment != nil && o.TcpFragment.Enable != nil {
			nw := 0
			for _, wr := range st.writes[dir] {
				if wr.off+int64(wr.n) > s.Geo.Start && wr.off < s.Geo.End {
					nw++
				}
			}
			explicitOn := o.TcpFragment.GetEnable()
			wire := s.Geo.End - s.Geo.Start
			if explicitOn && nw < 2 && wire >= 8 {
				cid, k := st.info.ID, kindName(s.Meta.Type)
				out = append(out, func() {
					w.violate("C16", "tcp-fragment-not-applied", "conn #%d %s: %s segment of %d bytes was written in %d call(s) although tcpFragment.enable=true", cid, dir, k, wire, nw)
				})
			}
			if !explicitOn && nw > 1 && w.Net.Stats().BackPressureWait == 0 {
				cid, k := st.info.ID, kindName(s.Meta.Type)
				out = append(out, func() {
					w.violate("C16", "tcp-fragment-applied-when-off", "conn #%d %s: %s segment of %d bytes was written in %d calls although tcpFragment.enable=false", cid, dir, k, wire, nw)
				})
			}
		}
	}
	// session head (to map wire session ids to harness sessions)
	if dir == simnet.C2S && ss.key == "" && len(s.Payload) > 0 && len(ss.head) < 300 {
		ss.head = append(ss.head, s.Payload...)
		t.tryParseHead(ss)
	}
	if s.Meta.Type == refproto.TypeCloseReq {
		ss.closeSeen[dir] = true
		if dir == simnet.S2C && s.Meta.Status == 1 {
			ss.quotaClose = true
		}
	}
	return out
}

func (t *Tap) tryParseHead(ss *sessTap) {
	h := ss.head
	if len(h) >= 5 && h[0] == 5 && h[3] == 3 {
		l := int(h[4])
		if len(h) >= 5+l {
			if k, ok := parseSessKey(string(h[5 : 5+l])); ok {
				ss.key = k
			}
		}
	}
}

// commonSegmentChecks: C14 field limits, C16 padding / low-entropy rules.
func (t *Tap) commonSegmentChecks(name string, ss *sessTap, dir int, s *refproto.Segment, udp bool) []func() {
	var out []func()
	w := t.w
	m := &s.Meta
	where := fmt.Sprintf("%s session %d %s seq %d", ss.flow, m.SessionID, kindName(m.Type), m.Seq)
	// C14 limits
	if m.IsSession() && m.PayloadLen > 1024 {
		out = append(out, func() { w.violate("C14", "session-payload-over-1024", "%s: payloadLen %d", where, m.PayloadLen) })
	}
	if len(s.Payload) > 32768 {
		out = append(out, func() { w.violate("C14", "fragment-over-32768", "%s: payload %d", where, len(s.Payload)) })
	}
	if m.IsLowEntropy() && m.PayloadLen > 0 {
		want := refproto.LEEncodedLen(int(m.ExtractedLen), m.Byte1)
		if int(m.PayloadLen) != want {
			out = append(out, func() {
				w.violate("C14", "low-entropy-length-law", "%s: payloadLen %d, extracted %d, want %d", where, m.PayloadLen, m.ExtractedLen, want)
			})
		}
	}
	eff := t.eff[name]
	orig := t.orig[name]
	if eff != nil && eff.Padding != nil {
		if m.IsDataAck() && int32(m.PrefixLen) > eff.Padding.GetMaxMiddlePaddingLen() {
			lim, explicit := eff.Padding.GetMaxMiddlePaddingLen(), orig != nil && orig.Padding != nil && orig.Padding.MaxMiddlePaddingLen != nil
			out = append(out, func() {
				w.violate("C16", "middle-padding-over-max", "%s: prefixLen %d > maxMiddlePaddingLen %d (explicit=%v) of %s", where, m.PrefixLen, lim, explicit, name)
			})
		}
		if int32(m.SuffixLen) > eff.Padding.GetMaxEndPaddingLen() {
			lim, explicit := eff.Padding.GetMaxEndPaddingLen(), orig != nil && orig.Padding != nil && orig.Padding.MaxEndPaddingLen != nil
			out = append(out, func() {
				w.violate("C16", "end-padding-over-max", "%s: suffixLen %d > maxEndPaddingLen %d (explicit=%v) of %s", where, m.SuffixLen, lim, explicit, name)
			})
		}
	}
	// C16 low-entropy rules
	if eff != nil && eff.LowEntropy != nil {
		mode := uint8(eff.LowEntropy.GetMode())
		rot := uint8(eff.LowEntropy.GetMaskRotation())
		isData := m.Type == refproto.TypeDataC2S || m.Type == refproto.TypeDataS2C
		if m.IsLowEntropy() {
			if mode == 0 {
				out = append(out, func() {
					w.violate("C16", "low-entropy-when-off", "%s: %s emitted a low-entropy segment but its mode is OFF", where, name)
				})
			} else if m.Byte1 != mode || m.LERotation != rot {
				b1, r := m.Byte1, m.LERotation
				out = append(out, func() {
					w.violate("C16", "low-entropy-mode-mismatch", "%s: mode %d rotation %d on the wire, configured %d / %d", where, b1, r, mode, rot)
				})
			}
			if dir == 1 && !ss.clientLE {
				out = append(out, func() {
					w.violate("C16", "server-low-entropy-first", "%s: server used low entropy before the client did on this session", where)
				})
			}
			if dir == 0 {
				ss.clientLE = true
			}
		} else if isData && len(s.Payload) > 0 {
			if dir == 0 && mode != 0 {
				out = append(out, func() {
					w.violate("C16", "low-entropy-not-applied", "%s: client mode %d configured but plain data emitted", where, mode)
				})
			}
		}
	}
	return out
}

func (t *Tap) checkNonce(name string, nonce []byte, where string) []func() {
	eff := t.eff[name]
	if eff == nil || eff.Nonce == nil {
		return nil
	}
	w := t.w
	np := eff.Nonce
	switch np.GetType() {
	case appctlpb.NonceType_NONCE_TYPE_PRINTABLE, appctlpb.NonceType_NONCE_TYPE_PRINTABLE_SUBSET:
		minLen := int(np.GetMinLen())
		if int(np.GetMaxLen()) < minLen {
			minLen = int(np.GetMaxLen())
		}
		for i := 0; i < minLen && i < len(nonce); i++ {
			if nonce[i] < 0x20 || nonce[i] > 0x7e {
				nn := append([]byte(nil), nonce...)
				return []func(){func() {
					w.violate("C16", "nonce-not-printable", "%s: nonce % x: byte %d not printable though %s has type %v minLen %d", where, nn, i, name, np.GetType(), minLen)
				}}
			}
		}
	case appctlpb.NonceType_NONCE_TYPE_FIXED:
		if len(np.GetCustomHexStrings()) == 0 {
			return nil
		}
		for _, hs := range np.GetCustomHexStrings() {
			p, err := hex.DecodeString(hs)
			if err == nil && len(p) <= len(nonce) && string(nonce[:len(p)]) == string(p) {
				return nil
			}
		}
		nn := append([]byte(nil), nonce...)
		return []func(){func() {
			w.violate("C16", "nonce-prefix-not-fixed", "%s: nonce % x starts with none of %v", where, nn, np.GetCustomHexStrings())
		}}
	}
	return nil
}

func (t *Tap) DatagramSent(d *simnet.Datagram) {
	w := t.w
	if t.foreignAddr(d.Src) && t.foreignAddr(d.Dst) {
		return
	}
	t.mu.Lock()
	if d.Dir == simnet.S2C && t.isAttacker(d.Dst) {
		t.replied[d.Dst]++
		if t.isHostileAddr(d.Dst) {
			if hs, _ := t.decodeWithAllCreds(d.Data); hs != nil && hs.Meta.Type == refproto.TypeOpenResp {
				if t.hostileOpened == 0 {
					t.hostileFirstOpen = time.Duration(t.w.nowUs()) * time.Microsecond
				}
				t.hostileOpened++
			}
		}
	}
	if t.isAttacker(d.Src) || (d.Dir == simnet.S2C && (t.isAttacker(d.Dst) || t.refServer)) {
		t.mu.Unlock()
		return
	}
	s, cached := t.peeked[d.ID]
	var derr string
	if !cached {
		s, derr = t.decodeDatagram(d.Flow, d.Data)
		t.peeked[d.ID] = s
	}
	fk := d.Flow + "/" + d.Dir.String()
	first := t.flowSeen[fk] == 0
	t.flowSeen[fk]++
	name := t.senderName(d.Flow, d.Dir)
	var todo []func()
	w.checks.Add(1)
	if s == nil {
		if derr == "" {
			_, derr = t.decodeDatagram(d.Flow, d.Data)
		}
		id, n := d.ID, len(d.Data)
		todo = append(todo, func() {
			w.violate("C09", "undecodable-datagram", "datagram #%d %s %s len %d emitted by a real endpoint does not decode with any registered credential: %s", id, d.Flow, d.Dir, n, derr)
		})
	} else {
		t.segs++
		t.kinds[kindName(s.Meta.Type)+"/udp"]++
		if s.HasNonce && !s.HintOK {
			id, fl, dr, u, n := d.ID, d.Flow, d.Dir, s.User, s.Nonce
			todo = append(todo, func() {
				w.violate("C09", "nonce-without-documented-user-hint", "datagram #%d %s %s: the nonce % x does not end in the first 4 bytes of SHA-256(user || nonce[0:16]) for user %q (%d-byte name)", id, fl, dr, n[:], u, len(u))
			})
		}
		if w.Spec.KeepLog {
			w.Net.Logf("  seg #%d %s sess=%d seq=%d unack=%d win=%d frag=%d pre=%d pay=%d suf=%d fate=%s", d.ID, kindName(s.Meta.Type), s.Meta.SessionID, s.Meta.Seq, s.Meta.UnAckSeq, s.Meta.Window, s.Meta.Fragment, s.Meta.PrefixLen, len(s.Payload), s.Meta.SuffixLen, d.Fate.Why)
		}
		ci := t.clientOfAddr(d.Flow)
		if t.record {
			t.geo = append(t.geo, geoOf(s, d.Flow, ci, -1, int(d.Dir), d.Index))
			if d.Fate.Drop {
				// never reached its destination: a copy of it is not "traffic the server has
				// already accepted" (only an attacker that intercepted it may use it)
				t.undelivered[fmt.Sprintf("%s/%d/%d", d.Flow, d.Dir, d.Index)] = true
			}
			if len(t.wire) < 5000 {
				t.wire[fmt.Sprintf("%s/%d/%d", d.Flow, d.Dir, d.Index)] = d.Data
			}
		}
		ss := t.sessFor(d.Flow, s.Meta.SessionID, true, ci)
		// C14: MTU of the sender
		if mtu := t.mtu[name]; mtu > 0 && len(d.Data) > mtu {
			id, n := d.ID, len(d.Data)
			k := kindName(s.Meta.Type)
			todo = append(todo, func() {
				w.violate("C14", "datagram-over-mtu", "datagram #%d (%s, %s) is %d bytes, sender %s is configured with MTU %d", id, k, d.Dir, n, name, mtu)
			})
		}
		todo = append(todo, t.commonSegmentChecks(name, ss, int(d.Dir), s, true)...)
		// C16 nonce: first packet of a client flow, or every packet with applyToAll
		if eff := t.eff[name]; eff != nil && eff.Nonce != nil {
			if eff.Nonce.GetApplyToAllUDPPacket() || (first && d.Dir == simnet.C2S) {
				todo = append(todo, t.checkNonce(name, s.Nonce[:], fmt.Sprintf("datagram #%d %s %s", d.ID, d.Flow, d.Dir))...)
			}
		}
		todo = append(todo, t.c13OnSend(ss, int(d.Dir), s, d)...)
		if d.Fate.Drop || d.Fate.Corrupt != nil {
			ss.dropped[d.Dir]++
		}
	}
	t.mu.Unlock()
	for _, f := range todo {
		f()
	}
}

// c13OnSend evaluates the three C13 invariants for an emitted datagram.
func (t *Tap) c13OnSend(ss *sessTap, dir int, s *refproto.Segment, d *simnet.Datagram) []func() {
	var out []func()
	w := t.w
	m := &s.Meta
	opp := 1 - dir
	if isDataAckType(m.Type) {
		// (1) cumulative ack never ahead of what was delivered to this endpoint
		w.checks.Add(1)
		if m.UnAckSeq > ss.contig[opp] {
			u, c := m.UnAckSeq, ss.contig[opp]
			id := d.ID
			out = append(out, func() {
				w.violate("C13", "ack-ahead-of-receipt", "datagram #%d %s session %d %s: unAckSeq=%d but only seqs 0..%d of the opposite direction had been delivered to this endpoint", id, d.Flow, m.SessionID, kindName(m.Type), u, int64(c)-1)
			})
		}
		if m.UnAckSeq > ss.maxAckBy[opp] {
			ss.maxAckBy[opp] = m.UnAckSeq
		}
	}
	if isSeqType(m.Type) {
		w.checks.Add(1)
		ph := uint32(0)
		if len(s.Payload) > 0 {
			ph = fnv32(s.Payload)
		}
		rec := ss.tx[dir][m.Seq]
		if rec == nil {
			// (3) first transmissions are gapless from zero
			if m.Seq != ss.nextNew[dir] && !ss.closeSeen[dir] {
				// (once this endpoint has emitted its close request the send queue has been
				// discarded: what a Write racing the Close still puts on the wire is numbered
				// after whatever was thrown away)
				got, want, id := m.Seq, ss.nextNew[dir], d.ID
				out = append(out, func() {
					w.violate("C13", "sequence-gap", "datagram #%d %s session %d dir %d: first transmission of seq %d, expected %d", id, d.Flow, m.SessionID, dir, got, want)
				})
			}
			if m.Seq >= ss.nextNew[dir] {
				ss.nextNew[dir] = m.Seq + 1
			}
			ss.tx[dir][m.Seq] = &txRec{typ: m.Type, fragment: m.Fragment, phash: ph, plen: len(s.Payload), count: 1}
			if dir == 0 && ss.key == "" && len(ss.head) < 300 && m.Seq == ss.headNext {
				ss.head = append(ss.head, s.Payload...)
				ss.headNext++
				t.tryParseHead(ss)
			}
		} else {
			rec.count++
			w.probe("retransmission-seen")
			// (2) retransmission identical
			if rec.typ != m.Type || rec.fragment != m.Fragment || rec.phash != ph || rec.plen != len(s.Payload) {
				id := d.ID
				r := *rec
				out = append(out, func() {
					w.violate("C13", "retransmission-differs", "datagram #%d %s session %d dir %d seq %d: retransmission has type %d fragment %d payload %d bytes (hash %08x), first transmission had type %d fragment %d payload %d bytes (hash %08x)",
						id, d.Flow, m.SessionID, dir, m.Seq, m.Type, m.Fragment, len(s.Payload), ph, r.typ, r.fragment, r.plen, r.phash)
				})
			}
		}
	}
	if (m.Type == refproto.TypeCloseReq || m.Type == refproto.TypeCloseResp) && m.Seq == ss.nextNew[dir] {
		// a close message takes the next sequence number of its direction; data written by
		// a Write that races the Close is numbered after it
		ss.nextNew[dir] = m.Seq + 1
	}
	if m.Type == refproto.TypeCloseReq {
		ss.closeSeen[dir] = true
		if dir == 1 && m.Status == 1 {
			ss.quotaClose = true
		}
	}
	return out
}

func fnv32(b []byte) uint32 {
	h := uint32(2166136261)
	for _, c := range b {
		h ^= uint32(c)
		h *= 16777619
	}
	return h
}

func (t *Tap) DatagramDelivered(d *simnet.Datagram) {
	t.mu.Lock()
	defer t.mu.Unlock()
	s := t.peeked[d.ID]
	if s == nil || t.isAttacker(d.Src) {
		return
	}
	if d.Fate.Corrupt != nil {
		// A corrupted copy counts as a delivery only if it still authenticates
		// (e.g. only unauthenticated padding bytes were altered).
		s2, _ := t.decodeDatagram(d.Flow, d.Data)
		if s2 == nil {
			return
		}
		t.w.probe("corrupt-copy-still-valid")
		s = s2
	}
	ci := t.clientOfAddr(d.Flow)
	ss := t.sessFor(d.Flow, s.Meta.SessionID, true, ci)
	dir := int(d.Dir)
	if isSeqType(s.Meta.Type) {
		ss.delivered[dir][s.Meta.Seq] = true
		for ss.delivered[dir][ss.contig[dir]] {
			ss.contig[dir]++
		}
		if s.Meta.Type == refproto.TypeDataC2SLE {
			ss.clientLEDelivered = true
		}
		if ss.contig[1] >= 2 {
			// open response (seq 0) and the first server data segment (seq 1,
			// the SOCKS reply) have both reached the client
			ss.hsDone = true
		}
	}
	if s.Meta.Type == refproto.TypeCloseReq {
		// Close request delivered: had everything before it arrived?
		if s.Meta.Seq > ss.contig[dir] {
			ss.closeGap[dir] = true
			t.w.probe("close-arrived-with-gap")
		} else {
			t.w.probe("close-arrived-after-all-data")
		}
	}
}

// flowHasInflight: some session of the flow has unacknowledged data or a
// pending handshake (used for the "fault landed on in-flight state" measure).
func (t *Tap) flowHasInflight(flow string) bool {
	t.mu.Lock()
	defer t.mu.Unlock()
	for _, ss := range t.sess {
		if ss.flow != flow {
			continue
		}
		for d := 0; d < 2; d++ {
			if ss.nextNew[d] > ss.maxAckBy[d] && !ss.closeSeen[d] {
				return true
			}
		}
	}
	return false
}

// closeCause explains a prefix-then-EOF outcome from the wire's point of view.
func (t *Tap) closeCause(rt *sessRT) string {
	t.mu.Lock()
	defer t.mu.Unlock()
	if rt.cli.spec.Transport != "udp" {
		return "stream"
	}
	for _, ss := range t.sess {
		if ss.key != rt.key {
			continue
		}
		if ss.closeGap[0] || ss.closeGap[1] {
			if ss.dropped[0]+ss.dropped[1] > 0 {
				return "close-arrived-before-lost-data"
			}
			return "close-overtook-data"
		}
		return "close-after-all-data"
	}
	return "unknown-session"
}

// unexpectedAccept: Server.Accept returned something that is not a scripted session.
func (t *Tap) unexpectedAccept(conn net.Conn, req *model.Request) {
	t.w.probe("unexpected-accept")
	t.w.mu.Lock()
	if t.w.Res.Info == nil {
		t.w.Res.Info = map[string]string{}
	}
	t.w.Res.Info["unexpectedAccept"] = fmt.Sprintf("%v from %v", req, conn.RemoteAddr())
	t.w.mu.Unlock()
}

// handshakePending reports whether the session a datagram belongs to has not
// yet completed its SOCKS handshake (the fairness budget is tighter then: the
// client gives up 10 s after sending its request).
func (t *Tap) handshakePending(flow string, id uint32) bool {
	t.mu.Lock()
	defer t.mu.Unlock()
	ss := t.sess[fmt.Sprintf("%s/%d", flow, id)]
	return ss == nil || !ss.hsDone
}

var simStart time.Time

func geoOf(s *refproto.Segment, scope string, client, conn, dir, index int) spec.SegGeo {
	g := spec.SegGeo{AtUs: time.Since(simStart).Microseconds(), Scope: scope, Client: client, Conn: conn, Dir: dir, Index: index, Type: int(s.Meta.Type), Sess: s.Meta.SessionID, Seq: s.Meta.Seq, Start: s.Geo.Start, End: s.Geo.End}
	sp := []refproto.Span{s.Geo.Nonce, s.Geo.EncMeta, s.Geo.MetaTag, s.Geo.Padding1, s.Geo.Body, s.Geo.PayloadTag, s.Geo.Padding2}
	for i, x := range sp {
		g.Spans[i] = [2]int64{x.Off, x.End}
	}
	return g
}

// MarkHostile declares an address prefix that belongs to an attacker holding a
// valid credential: its traffic is exempt from the wire invariants and the
// server may answer it.
func (t *Tap) MarkHostile(ipPrefix string) {
	t.mu.Lock()
	t.attack[ipPrefix] = true
	if t.hostile == nil {
		t.hostile = map[string]bool{}
	}
	t.hostile[ipPrefix] = true
	t.mu.Unlock()
}

func (t *Tap) isAttackerLocked(addr string) bool {
	t.mu.Lock()
	defer t.mu.Unlock()
	for p := range t.attack {
		if strings.HasPrefix(addr, p) && !t.hostile[p] {
			return true
		}
	}
	return false
}

// hasAnsweredStream: the first TCP connection of a genuine client exists and the server has
// answered on it (the precondition of streamOfClient, without copying anything).
func (t *Tap) hasAnsweredStream(ci int) bool {
	t.mu.Lock()
	defer t.mu.Unlock()
	conn := -1
	for id, st := range t.streams {
		if st.client == ci && (conn == -1 || id < conn) {
			conn = id
		}
	}
	return conn >= 0 && len(t.streams[conn].writes[1]) > 0
}

// streamOfClient returns the recorded client-to-server bytes and segment
// geometry of the first TCP connection of a genuine client.
func (t *Tap) streamOfClient(ci int) ([]byte, []spec.SegGeo) {
	t.mu.Lock()
	defer t.mu.Unlock()
	conn := -1
	for id, st := range t.streams {
		if st.client == ci && (conn == -1 || id < conn) {
			conn = id
		}
	}
	if conn < 0 || len(t.streams[conn].writes[1]) == 0 {
		// "traffic the server has already accepted": wait until the server has answered
		return nil, nil
	}
	var geo []spec.SegGeo
	for _, g := range t.geo {
		if g.Conn == conn && g.Dir == 0 && g.Index == -1 {
			geo = append(geo, g)
		}
	}
	b := t.wire[fmt.Sprintf("tcp#%d/0", conn)]
	return append([]byte(nil), b...), geo
}

// firstSegmentAny returns the first client-to-server segment a genuine client emitted
// (first datagram of its first flow, or first segment of its first TCP connection),
// whether or not it reached the server.
func (t *Tap) firstSegmentAny(ci int, udp bool) []byte {
	t.mu.Lock()
	defer t.mu.Unlock()
	var best *spec.SegGeo
	for i := range t.geo {
		g := &t.geo[i]
		if g.Client != ci || g.Dir != 0 || (g.Index >= 0) != udp {
			continue
		}
		if best == nil || g.AtUs < best.AtUs {
			best = g
		}
	}
	if best == nil {
		return nil
	}
	if udp {
		return append([]byte(nil), t.wire[fmt.Sprintf("%s/%d/%d", best.Scope, best.Dir, best.Index)]...)
	}
	b := t.wire[fmt.Sprintf("tcp#%d/0", best.Conn)]
	if int64(len(b)) < best.End {
		return nil
	}
	return append([]byte(nil), b[best.Start:best.End]...)
}

// datagramsOfClient returns the recorded client-to-server datagrams of a genuine client's flow, in order.
func (t *Tap) datagramsOfClient(ci int) [][]byte {
	t.mu.Lock()
	defer t.mu.Unlock()
	var out [][]byte
	// "traffic the server has already accepted": only datagrams of sessions that the
	// server has answered (a copy that beats its original to the server IS the original)
	answered := map[string]bool{}
	for k, ss := range t.sess {
		if ss.client == ci && ss.udp && ss.nextNew[1] > 0 {
			answered[k] = true
		}
	}
	for _, g := range t.geo {
		if g.Client == ci && g.Dir == 0 && g.Index >= 0 && answered[fmt.Sprintf("%s/%d", g.Scope, g.Sess)] && !t.undelivered[fmt.Sprintf("%s/%d/%d", g.Scope, g.Dir, g.Index)] {
			if b, ok := t.wire[fmt.Sprintf("%s/%d/%d", g.Scope, g.Dir, g.Index)]; ok {
				out = append(out, b)
			}
		}
	}
	return out
}

// victimSessionIDs lists session ids of genuine sessions seen so far.
func (t *Tap) victimSessionIDs(transport string) []uint32 {
	t.mu.Lock()
	defer t.mu.Unlock()
	var ids []uint32
	for _, ss := range t.sess {
		// only sessions the server has already answered: an id "owned by another
		// user" is one that exists at the server, not one still in flight
		if ss.client >= 0 && ss.udp == (transport == "udp") && ss.nextNew[1] > 0 {
			ids = append(ids, ss.id)
		}
	}
	// deterministic order
	for i := 1; i < len(ids); i++ {
		for j := i; j > 0 && ids[j] < ids[j-1]; j-- {
			ids[j], ids[j-1] = ids[j-1], ids[j]
		}
	}
	return ids
}

func (t *Tap) isHostileAddr(addr string) bool {
	for p := range t.hostile {
		if strings.HasPrefix(addr, p) {
			return true
		}
	}
	return false
}

func (t *Tap) decodeWithAllCreds(b []byte) (*refproto.Segment, string) {
	now := t.unixNow()
	for _, c := range t.creds {
		for _, slot := range refproto.CandidateSlots(now) {
			if s, err := refproto.DecodeDatagramWithKey(b, t.keyFor(c, slot)); err == nil {
				return s, c.User
			}
		}
	}
	return nil, ""
}

func (t *Tap) hostileSessionsOpened() (int, time.Duration) {
	t.mu.Lock()
	defer t.mu.Unlock()
	return t.hostileOpened, t.hostileFirstOpen
}

// sawQuotaClose: the server emitted a close request with status 1 (quota
// exhausted) for the wire session that carries this harness session.
func (t *Tap) sawQuotaClose(rt *sessRT) bool {
	t.mu.Lock()
	defer t.mu.Unlock()
	for _, ss := range t.sess {
		if (ss.key == rt.key || ss.key == "") && ss.client == rt.ci && ss.quotaClose {
			return true
		}
	}
	return false
}

// sessionKeysOnConn lists the harness sessions that ride on TCP connection id.
func (t *Tap) sessionKeysOnConn(id int) []string {
	t.mu.Lock()
	defer t.mu.Unlock()
	var keys []string
	scope := fmt.Sprintf("tcp#%d", id)
	for _, ss := range t.sess {
		if ss.flow == scope && ss.key != "" {
			keys = append(keys, ss.key)
		}
	}
	return keys
}

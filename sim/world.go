package sim

import (
	"context"
	"fmt"
	"net"
	"os"
	"sort"
	"strings"
	"sync"
	"sync/atomic"
	"time"

	"github.com/enfein/mieru/v3/apis/client"
	"github.com/enfein/mieru/v3/apis/server"
	"github.com/enfein/mieru/v3/pkg/appctl/appctlpb"
	mlog "github.com/enfein/mieru/v3/pkg/log"
	"github.com/enfein/mieru/v3/pkg/protocol"
	"google.golang.org/protobuf/proto"

	"verifsim/simnet"
	"verifsim/spec"
)

// World is everything that exists in one simulated run.
type World struct {
	Spec *spec.RunSpec
	Net  *simnet.Net
	Res  *spec.RunResult
	Tap  *Tap

	mu         sync.Mutex
	start      time.Time
	srv        server.Server
	rawKeys    map[string]string // raw mux mode: protocol session id -> harness session key
	srvNode    *simnet.Node
	clients    []*clientRT
	sessions   map[string]*sessRT // "c<ci>s<si>" -> runtime
	probes     map[string]int
	faults     map[string]int
	states     map[string]struct{}
	wg         sync.WaitGroup
	checks     atomic.Int64
	healed     bool
	closeRT    *closeRT
	userUp     map[string]int64 // bytes returned by server-side Read, per user (model of C19)
	userDown   map[string]int64 // bytes accepted by server-side Write, per user
	histHash   uint64
	histEvents int64
	acceptErrs int

	fate *fatePlan
}

type clientRT struct {
	idx  int
	spec *spec.Client
	cli  client.Client
	node *simnet.Node
}

func (w *World) nowUs() int64 { return time.Since(w.start).Microseconds() }

func (w *World) probe(name string) {
	w.mu.Lock()
	w.probes[name]++
	w.mu.Unlock()
}

func (w *World) fault(name string) {
	w.mu.Lock()
	w.faults[name]++
	w.mu.Unlock()
}

func (w *World) addCheck(n int64) { w.checks.Add(n) }

// violate records an oracle failure. Violations whose property differs from
// the property under check are kept as notes (one check, one oracle).
func (w *World) violate(prop, class, format string, a ...any) {
	v := spec.Violation{Property: prop, Class: class, Detail: fmt.Sprintf(format, a...), AtUs: w.nowUs()}
	w.mu.Lock()
	defer w.mu.Unlock()
	list := &w.Res.Notes
	if prop == w.Spec.Property || w.wantsOracle(prop) {
		list = &w.Res.Violations
	}
	for _, old := range *list {
		if old.Property == v.Property && old.Class == v.Class {
			return // one per class is enough
		}
	}
	if len(*list) < 50 {
		*list = append(*list, v)
	}
}

func (w *World) wantsOracle(prop string) bool {
	for _, o := range w.Spec.Oracles {
		if o == prop {
			return true
		}
	}
	return false
}

func (w *World) harness(format string, a ...any) {
	w.mu.Lock()
	if len(w.Res.Harness) < 50 {
		w.Res.Harness = append(w.Res.Harness, fmt.Sprintf("%dus ", w.nowUs())+fmt.Sprintf(format, a...))
	}
	w.mu.Unlock()
}

func toPattern(p *spec.Pattern) *appctlpb.TrafficPattern {
	if p == nil {
		return nil
	}
	tp := &appctlpb.TrafficPattern{Seed: p.Seed, UnlockAll: p.UnlockAll}
	if p.FragEnable != nil || p.FragMaxSleepMs != nil {
		tp.TcpFragment = &appctlpb.TCPFragment{Enable: p.FragEnable, MaxSleepMs: p.FragMaxSleepMs}
	}
	if p.NonceType != nil || p.NonceApplyAll != nil || p.NonceMinLen != nil || p.NonceMaxLen != nil || len(p.NonceHex) > 0 {
		np := &appctlpb.NoncePattern{ApplyToAllUDPPacket: p.NonceApplyAll, MinLen: p.NonceMinLen, MaxLen: p.NonceMaxLen, CustomHexStrings: p.NonceHex}
		if p.NonceType != nil {
			np.Type = appctlpb.NonceType(*p.NonceType).Enum()
		}
		tp.Nonce = np
	}
	if p.PadMid != nil || p.PadEnd != nil {
		tp.Padding = &appctlpb.PaddingPattern{MaxMiddlePaddingLen: p.PadMid, MaxEndPaddingLen: p.PadEnd}
	}
	if p.LEMode != nil || p.LERot != nil {
		le := &appctlpb.LowEntropyPattern{}
		if p.LEMode != nil {
			le.Mode = appctlpb.LowEntropyMode(*p.LEMode).Enum()
		}
		if p.LERot != nil {
			le.MaskRotation = appctlpb.LowEntropyMaskRotation(*p.LERot).Enum()
		}
		tp.LowEntropy = le
	}
	return tp
}

func toUsers(us []spec.User) []*appctlpb.User {
	var out []*appctlpb.User
	for _, u := range us {
		pu := &appctlpb.User{Name: proto.String(u.Name), Password: proto.String(u.Password)}
		if u.AllowPrivate {
			pu.AllowPrivateIP = proto.Bool(true)
		}
		if u.AllowLoopback {
			pu.AllowLoopbackIP = proto.Bool(true)
		}
		for _, q := range u.Quotas {
			pu.Quotas = append(pu.Quotas, &appctlpb.Quota{Days: proto.Int32(int32(q.Days)), Megabytes: proto.Int32(int32(q.Megabytes))})
		}
		out = append(out, pu)
	}
	return out
}

func serverConfigPB(s *spec.Server) *appctlpb.ServerConfig {
	cfg := &appctlpb.ServerConfig{Users: toUsers(s.Users), TrafficPattern: toPattern(s.Pattern)}
	if s.TCPPort != 0 {
		cfg.PortBindings = append(cfg.PortBindings, &appctlpb.PortBinding{Port: proto.Int32(int32(s.TCPPort)), Protocol: appctlpb.TransportProtocol_TCP.Enum()})
	}
	if s.UDPPort != 0 {
		cfg.PortBindings = append(cfg.PortBindings, &appctlpb.PortBinding{Port: proto.Int32(int32(s.UDPPort)), Protocol: appctlpb.TransportProtocol_UDP.Enum()})
	}
	for _, pt := range s.ExtraTCPPorts {
		cfg.PortBindings = append(cfg.PortBindings, &appctlpb.PortBinding{Port: proto.Int32(int32(pt)), Protocol: appctlpb.TransportProtocol_TCP.Enum()})
	}
	for _, pt := range s.ExtraUDPPorts {
		cfg.PortBindings = append(cfg.PortBindings, &appctlpb.PortBinding{Port: proto.Int32(int32(pt)), Protocol: appctlpb.TransportProtocol_UDP.Enum()})
	}
	if s.MTU != 0 {
		cfg.Mtu = proto.Int32(int32(s.MTU))
	}
	if s.HintMandatory {
		cfg.AdvancedSettings = &appctlpb.ServerAdvancedSettings{UserHintIsMandatory: proto.Bool(true)}
	}
	return cfg
}

func clientProfilePB(s *spec.RunSpec, c *spec.Client, idx int) *appctlpb.ClientProfile {
	u := s.Server.Users[c.User]
	port := s.Server.TCPPort
	tp := appctlpb.TransportProtocol_TCP
	if c.Transport == "udp" {
		port = s.Server.UDPPort
		tp = appctlpb.TransportProtocol_UDP
	}
	p := &appctlpb.ClientProfile{
		ProfileName: proto.String(fmt.Sprintf("c%d", idx)),
		User:        &appctlpb.User{Name: proto.String(u.Name), Password: proto.String(u.Password)},
		Servers: []*appctlpb.ServerEndpoint{{
			IpAddress:    proto.String(s.Server.IP),
			PortBindings: []*appctlpb.PortBinding{{Port: proto.Int32(int32(port)), Protocol: tp.Enum()}},
		}},
		TrafficPattern: toPattern(c.Pattern),
	}
	if c.MTU != 0 {
		p.Mtu = proto.Int32(int32(c.MTU))
	}
	lv := []appctlpb.MultiplexingLevel{appctlpb.MultiplexingLevel_MULTIPLEXING_OFF, appctlpb.MultiplexingLevel_MULTIPLEXING_LOW, appctlpb.MultiplexingLevel_MULTIPLEXING_MIDDLE, appctlpb.MultiplexingLevel_MULTIPLEXING_HIGH}
	p.Multiplexing = &appctlpb.MultiplexingConfig{Level: lv[c.Multiplex%4].Enum()}
	if c.NoWait {
		p.HandshakeMode = appctlpb.HandshakeMode_HANDSHAKE_NO_WAIT.Enum()
	} else {
		p.HandshakeMode = appctlpb.HandshakeMode_HANDSHAKE_STANDARD.Enum()
	}
	return p
}

// NewWorld builds the network, starts the real server and the real clients.
func NewWorld(s *spec.RunSpec, res *spec.RunResult) (*World, error) {
	return NewWorldOpts(s, res, true)
}

// NewWorldOpts is NewWorld with the real server optional (the reference server
// scenario owns the server address itself).
func NewWorldOpts(s *spec.RunSpec, res *spec.RunResult, startServer bool) (*World, error) {
	w := &World{Spec: s, Res: res, sessions: map[string]*sessRT{}, probes: map[string]int{}, faults: map[string]int{}, states: map[string]struct{}{}, userUp: map[string]int64{}, userDown: map[string]int64{}}
	w.start = time.Now()
	w.Net = simnet.New(s.Seed)
	w.Net.KeepLog = s.KeepLog
	w.Net.BaseLatency = time.Duration(s.Net.LatencyUs) * time.Microsecond
	if w.Net.BaseLatency <= 0 {
		w.Net.BaseLatency = time.Millisecond
	}
	w.Net.BaseJitter = time.Duration(s.Net.JitterUs) * time.Microsecond
	w.Net.PathMTU = s.Net.PathMTU
	w.Tap = newTap(w)
	w.Net.SetTap(w.Tap)
	w.fate = newFatePlan(w)
	w.Net.FateFn = w.fate.decide
	w.Net.PolicyFn = w.streamPolicy

	protocol.VerifRebaseGlobals() // process-wide replay caches were created under the real clock
	w.srvNode = w.Net.Node(s.Server.IP)
	if startServer {
		w.srv = server.NewServer()
		if err := w.srv.Store(&server.ServerConfig{Config: serverConfigPB(&s.Server), StreamListenerFactory: w.srvNode, PacketListenerFactory: w.srvNode}); err != nil {
			return nil, fmt.Errorf("server Store: %w", err)
		}
		if err := w.srv.Start(); err != nil {
			return nil, fmt.Errorf("server Start: %w", err)
		}
	}
	for i := range s.Clients {
		c := &s.Clients[i]
		node := w.Net.Node(c.IP)
		cl := client.NewClient()
		if err := cl.Store(&client.ClientConfig{Profile: clientProfilePB(s, c, i), Dialer: node, PacketDialer: simnet.PacketDialer{Node: node}}); err != nil {
			return nil, fmt.Errorf("client %d Store: %w", i, err)
		}
		if err := cl.Start(); err != nil {
			return nil, fmt.Errorf("client %d Start: %w", i, err)
		}
		w.clients = append(w.clients, &clientRT{idx: i, spec: c, cli: cl, node: node})
	}
	enableMieruLog()
	return w, nil
}

func (w *World) streamPolicy(ci *simnet.ConnInfo, dir simnet.Dir) simnet.StreamPolicy {
	n := &w.Spec.Net
	p := simnet.StreamPolicy{
		Latency:     w.Net.BaseLatency,
		Jitter:      w.Net.BaseJitter,
		BytesPerSec: n.BytesPerSec,
		RecvBuf:     n.RecvBuf,
		ChunkMode:   n.ChunkMode,
		DribbleHead: n.DribbleHead,
		CutAt:       -1,
	}
	for _, f := range n.Stream {
		if f.Conn != ci.ID || simnet.Dir(f.Dir) != dir {
			continue
		}
		switch f.Kind {
		case "xor":
			p.Rewrites = append(p.Rewrites, simnet.Rewrite{Off: f.Off, Xor: f.Xor})
			w.fault("tcp-rewrite")
		case "rewrite":
			rw := simnet.Rewrite{Off: f.Off, Del: f.Del, Ins: f.Ins}
			p.Rewrites = append(p.Rewrites, rw)
			w.fault("tcp-rewrite")
		case "cut-fin":
			p.CutAt = f.Off
		case "cut-rst":
			p.CutAt = f.Off
			p.CutRST = true
		case "stall":
			p.Stalls = append(p.Stalls, simnet.Stall{AtOff: f.Off, D: time.Duration(f.ArgUs) * time.Microsecond})
		}
	}
	sort.Slice(p.Stalls, func(i, j int) bool { return p.Stalls[i].AtOff < p.Stalls[j].AtOff })
	return p
}

// scheduleTimedStreamFaults arms faults that fire at a virtual instant.
func (w *World) scheduleTimedStreamFaults() {
	for _, f := range w.Spec.Net.Stream {
		f := f
		switch f.Kind {
		case "reset-at", "blackhole-at", "cutfin-at":
			time.AfterFunc(time.Duration(f.AtUs)*time.Microsecond-time.Since(w.start), func() {
				conns := w.Net.Conns()
				if f.Conn >= len(conns) {
					return
				}
				switch f.Kind {
				case "reset-at":
					conns[f.Conn].Reset()
					w.fault("tcp-reset")
				case "blackhole-at":
					conns[f.Conn].Blackhole()
					w.fault("tcp-blackhole")
				case "cutfin-at":
					conns[f.Conn].CutFIN()
					w.fault("tcp-cutfin")
				}
			})
		}
	}
}

func sessKey(ci, si int) string { return fmt.Sprintf("c%ds%d", ci, si) }

func parseSessKey(fqdn string) (string, bool) {
	if !strings.HasSuffix(fqdn, ".sim") {
		return "", false
	}
	return strings.TrimSuffix(fqdn, ".sim"), true
}

type simAddr struct{ network, addr string }

func (a simAddr) Network() string { return a.network }
func (a simAddr) String() string  { return a.addr }

var _ net.Addr = simAddr{}

func (w *World) dial(c *clientRT, key string, udpAssoc bool) (net.Conn, error) {
	ctx, cancel := context.WithTimeout(context.Background(), 30*time.Second)
	defer cancel()
	network := "tcp"
	if udpAssoc {
		network = "udp"
	}
	if w.Spec.Server.RawMux {
		mux := client.VerifMux(c.cli)
		if mux == nil {
			return nil, fmt.Errorf("HARNESS raw mux mode: the client has no multiplexer")
		}
		conn, err := mux.DialContext(ctx)
		if err != nil {
			return conn, err
		}
		id := rawSessionID(conn)
		if id == "" {
			return nil, fmt.Errorf("HARNESS raw mux mode: cannot identify the session of %T", conn)
		}
		w.mu.Lock()
		if w.rawKeys == nil {
			w.rawKeys = map[string]string{}
		}
		if prev, dup := w.rawKeys[id]; dup {
			w.mu.Unlock()
			return nil, fmt.Errorf("HARNESS raw mux mode: session id %s drawn twice (%s, %s)", id, prev, key)
		}
		w.rawKeys[id] = key
		w.mu.Unlock()
		return conn, nil
	}
	return c.cli.DialContext(ctx, simAddr{network, key + ".sim:80"})
}

// rawSessionID names the protocol session behind a connection taken straight from a Mux.
func rawSessionID(conn net.Conn) string {
	if s, ok := conn.(*protocol.Session); ok {
		return s.ToSessionInfo().GetId()
	}
	return ""
}

// enableMieruLog turns mieru's own logging on (debugging aid; off by default).
// It prints the virtual clock, so it does not disturb determinism.
func enableMieruLog() {
	lv := os.Getenv("VSIM_MIERU_LOG")
	if lv == "" {
		return
	}
	mlog.SetFormatter(&mlog.DaemonFormatter{})
	mlog.SetOutput(os.Stderr)
	mlog.SetLevel(lv)
}

// connTampered: an in-path rewrite is planned on this connection, so what an
// endpoint emits may answer bytes the tap never saw (the tap decodes what the
// sender emitted, before the rewrite).
func (w *World) connTampered(id int) bool {
	for _, f := range w.Spec.Net.Stream {
		if f.Conn == id && (f.Kind == "rewrite" || f.Kind == "xor") {
			return true
		}
	}
	return false
}

func (w *World) account(user string, up, down int64) {
	if user == "" {
		return
	}
	w.mu.Lock()
	w.userUp[user] += up
	w.userDown[user] += down
	w.mu.Unlock()
}

func (w *World) userTotal(user string) int64 {
	w.mu.Lock()
	defer w.mu.Unlock()
	return w.userUp[user] + w.userDown[user]
}

package sim

import (
	"bytes"
	"fmt"
	"net"
	"runtime/pprof"
	"strings"
	"sync"
	"time"

	"github.com/enfein/mieru/v3/apis/model"

	"verifsim/spec"
)

func init() { scenarios["close"] = scenClose }

// callRec is one application call on a proxy connection.
type callRec struct {
	actor    int
	conn     string // "c0s1/client"
	op       string
	start    time.Duration
	end      time.Duration // -1: still blocked when the run ended
	err      string
	n        int
	deadline time.Duration // user deadline in force for this call when it started (0: none)
	dlUses   int           // calls of the same kind that already returned since that deadline was set
}

type connEnd struct {
	conn         net.Conn
	mu           sync.Mutex
	rdl          time.Duration // user-set read deadline (absolute virtual time since start; 0 none)
	wdl          time.Duration
	closedT      time.Duration // when a local Close was first invoked (0: never)
	rUses, wUses int           // reads / writes returned since the deadline was last set
}

type closeRT struct {
	w               *World
	cs              *spec.CloseSpec
	mu              sync.Mutex
	calls           []*callRec
	ends            map[string]*connEnd // "c0s1/client"
	ready           map[string]chan struct{}
	kills           map[string][]killRec     // session key -> everything that ended or broke the session
	dialAt          map[string]time.Duration // session key -> when DialContext returned
	silentFailureAt time.Duration            // when a TCP connection was black-holed (0: never)
	firstWrite      map[string]time.Duration // judge: connection -> start of its first Write
}

// killRec is one event that ends or breaks a session.
type killRec struct {
	at   time.Duration
	kind string
	side string // "client" | "server" | "net": where it happened
}

// scenClose: C15. Concurrent Read/Write/SetDeadline/Close at both ends, client
// or server Stop, abrupt underlay failure; every call must return in bounded
// time, deadlines must hold until changed, nothing may be left running.
func scenClose(s *spec.RunSpec, res *spec.RunResult, finish func(*World)) {
	w, err := NewWorld(s, res)
	if err != nil {
		res.Harness = append(res.Harness, "world: "+err.Error())
		finish(nil)
	}
	if s.Close == nil {
		res.Harness = append(res.Harness, "close scenario without spec")
		finish(nil)
	}
	baseline := mieruGoroutines()
	_ = baseline
	w.startCap(finish)
	c := &closeRT{w: w, cs: s.Close, ends: map[string]*connEnd{}, ready: map[string]chan struct{}{}, kills: map[string][]killRec{}, dialAt: map[string]time.Duration{}}
	w.closeRT = c
	for _, cl := range w.clients {
		for i := range cl.spec.Sessions {
			key := sessKey(cl.idx, cl.spec.Sessions[i].ID)
			c.ready[key+"/client"] = make(chan struct{})
			c.ready[key+"/server"] = make(chan struct{})
		}
	}
	go w.serverAcceptLoop()
	// dial every session
	for _, cl := range w.clients {
		for i := range cl.spec.Sessions {
			cl, se := cl, &cl.spec.Sessions[i]
			go func() {
				if d := time.Duration(se.StartUs)*time.Microsecond - time.Since(w.start); d > 0 {
					time.Sleep(d)
				}
				key := sessKey(cl.idx, se.ID)
				conn, err := w.dial(cl, key, false)
				if err != nil {
					w.probe("close-dial-failed")
					if conn != nil {
						conn.Close()
					}
					return
				}
				c.mu.Lock()
				c.dialAt[key] = c.now()
				c.mu.Unlock()
				c.setEnd(key+"/client", conn)
			}()
		}
	}
	// global events
	for _, ev := range s.Close.Events {
		ev := ev
		go func() {
			time.Sleep(time.Duration(ev.AtUs)*time.Microsecond - time.Since(w.start))
			c.fire(ev)
		}()
	}
	// actors
	var awg sync.WaitGroup
	for i := range s.Close.Actors {
		i := i
		awg.Add(1)
		go func() {
			defer awg.Done()
			c.runActor(i, &s.Close.Actors[i])
		}()
	}
	allDone := make(chan struct{})
	go func() { awg.Wait(); close(allDone) }()
	select {
	case <-allDone:
	case <-time.After(time.Duration(s.Close.HorizonUs)*time.Microsecond - time.Since(w.start)):
		w.probe("close-horizon-reached-with-actors-blocked")
	}
	// shut everything down, timing it
	nSess := 0
	for _, cl := range w.clients {
		nSess += len(cl.spec.Sessions)
	}
	stopBound := 10*time.Second + 2*time.Second*time.Duration(nSess)
	for _, cl := range w.clients {
		c.timedStop(fmt.Sprintf("client %d Stop", cl.idx), stopBound, func() { cl.cli.Stop() })
		c.noteKillClient(cl.idx, "client-stop", "client")
	}
	c.timedStop("server Stop", stopBound, func() { w.srv.Stop() })
	c.noteKillAll("server-stop", "server")
	// double stop must be harmless
	c.timedStop("second server Stop", stopBound, func() { w.srv.Stop() })
	select {
	case <-allDone:
	case <-time.After(stopBound + 180*time.Second):
	}
	time.Sleep(5 * time.Minute)
	c.judge(stopBound)
	c.leakCheck()
	w.Res.NonTrivial = w.checks.Load() > 0 && len(c.calls) > 0
	res.Completed = true
	finish(w)
}

func (c *closeRT) setEnd(name string, conn net.Conn) {
	c.mu.Lock()
	c.ends[name] = &connEnd{conn: conn}
	ch := c.ready[name]
	c.mu.Unlock()
	if ch != nil {
		close(ch)
	}
}

// closeAccept is called by the accept loop for sessions of this scenario.
func (c *closeRT) onAccept(conn net.Conn, req *model.Request, key string) {
	resp := &model.Response{Reply: 0, BindAddr: model.AddrSpec{IP: net.IPv4zero, Port: 0}}
	go func() {
		resp.WriteToSocks5(conn)
		c.setEnd(key+"/server", conn)
	}()
}

func (c *closeRT) now() time.Duration { return time.Since(c.w.start) }

func (c *closeRT) noteKill(key, kind, side string) {
	c.mu.Lock()
	c.kills[key] = append(c.kills[key], killRec{at: c.now(), kind: kind, side: side})
	c.mu.Unlock()
}

func (c *closeRT) noteKillClient(ci int, kind, side string) {
	for _, cl := range c.w.clients {
		if cl.idx != ci {
			continue
		}
		for i := range cl.spec.Sessions {
			c.noteKill(sessKey(ci, cl.spec.Sessions[i].ID), kind, side)
		}
	}
}

func (c *closeRT) noteKillAll(kind, side string) {
	for _, cl := range c.w.clients {
		c.noteKillClient(cl.idx, kind, side)
	}
}

func (c *closeRT) fire(ev spec.Event) {
	w := c.w
	w.fault("event-" + ev.Kind)
	switch ev.Kind {
	case "client-stop":
		if ev.Arg < len(w.clients) {
			c.noteKillClient(ev.Arg, "client-stop", "client")
			c.timedStop(fmt.Sprintf("client %d Stop (event)", ev.Arg), 10*time.Second+8*time.Second, func() { w.clients[ev.Arg].cli.Stop() })
		}
	case "server-stop":
		c.noteKillAll("server-stop", "server")
		c.timedStop("server Stop (event)", 10*time.Second+8*time.Second, func() { w.srv.Stop() })
	case "reset":
		conns := w.Net.Conns()
		if ev.Arg < len(conns) {
			for _, k := range w.Tap.sessionKeysOnConn(ev.Arg) {
				c.noteKill(k, "tcp-reset", "net")
			}
			conns[ev.Arg].Reset()
		}
	case "blackhole":
		conns := w.Net.Conns()
		if ev.Arg < len(conns) {
			// a silent TCP failure is the kernel's to detect (keep-alive / retransmission
			// time-out, which simnet does not model): no bound is derived from it
			c.mu.Lock()
			c.silentFailureAt = c.now()
			c.mu.Unlock()
			conns[ev.Arg].Blackhole()
		}
	case "udp-blackhole":
		c.noteKillAll("udp-blackhole", "net")
		w.fate.mu.Lock()
		w.Spec.Net.Blackholes = append(w.Spec.Net.Blackholes, spec.Blackhole{Client: -1, Dir: -1, FromUs: 0, ToUs: 1 << 60})
		w.fate.mu.Unlock()
	}
}

func (c *closeRT) timedStop(what string, bound time.Duration, f func()) {
	w := c.w
	start := c.now()
	done := make(chan struct{})
	go func() { f(); close(done) }()
	select {
	case <-done:
		w.addCheck(1)
		if d := c.now() - start; d > bound {
			w.violate("C15", "stop-too-slow", "%s took %v (bound %v)", what, d, bound)
		}
	case <-time.After(bound + 60*time.Second):
		w.addCheck(1)
		w.dumpStacks() // where is it stuck: goes to the run's info["stacks"]
		w.violate("C15", "stop-does-not-return", "%s had not returned after %v", what, bound+60*time.Second)
	}
}

func (c *closeRT) finish(r *callRec, n int, err error) {
	c.mu.Lock()
	r.n = n
	if err != nil {
		r.err = err.Error()
	}
	r.end = c.now()
	c.mu.Unlock()
}

func (c *closeRT) record(r *callRec) {
	c.mu.Lock()
	c.calls = append(c.calls, r)
	c.mu.Unlock()
}

func (c *closeRT) runActor(idx int, a *spec.Actor) {
	w := c.w
	key := sessKey(a.Client, a.Session)
	name := key + "/" + a.Side
	c.mu.Lock()
	ch := c.ready[name]
	c.mu.Unlock()
	if ch == nil {
		return
	}
	select {
	case <-ch:
	case <-time.After(20 * time.Second):
		w.probe("close-actor-conn-never-ready")
		return
	}
	c.mu.Lock()
	ce := c.ends[name]
	c.mu.Unlock()
	prf := newPRF(w.Spec.Seed, idx, 9)
	var off int64
	timeouts := 0 // consecutive reads that ended in a time-out
	for _, op := range a.Ops {
		cnt := op.Count
		if cnt <= 0 {
			cnt = 1
		}
		for k := 0; k < cnt; k++ {
			switch op.Op {
			case "sleep":
				time.Sleep(time.Duration(op.Us) * time.Microsecond)
			case "setdl", "setrdl", "setwdl":
				var t time.Time
				var abs time.Duration
				if op.Us != 0 {
					t = time.Now().Add(time.Duration(op.Us) * time.Microsecond)
					abs = c.now() + time.Duration(op.Us)*time.Microsecond
				}
				ce.mu.Lock()
				switch op.Op {
				case "setdl":
					ce.conn.SetDeadline(t)
					ce.rdl, ce.wdl = abs, abs
					ce.rUses, ce.wUses = 0, 0
				case "setrdl":
					ce.conn.SetReadDeadline(t)
					ce.rdl = abs
					ce.rUses = 0
				case "setwdl":
					ce.conn.SetWriteDeadline(t)
					ce.wdl = abs
					ce.wUses = 0
				}
				ce.mu.Unlock()
			case "write":
				ce.mu.Lock()
				dl, uses := ce.wdl, ce.wUses
				ce.mu.Unlock()
				r := &callRec{actor: idx, conn: name, op: "write", start: c.now(), end: -1, deadline: dl, dlUses: uses}
				c.record(r)
				n, err := ce.conn.Write(prf.Bytes(off, op.N))
				off += int64(op.N)
				c.finish(r, n, err)
				ce.mu.Lock()
				ce.wUses++
				ce.mu.Unlock()
				if err != nil && !isTimeout(err) {
					return
				}
				time.Sleep(time.Microsecond)
			case "read":
				ce.mu.Lock()
				dl, uses := ce.rdl, ce.rUses
				ce.mu.Unlock()
				r := &callRec{actor: idx, conn: name, op: "read", start: c.now(), end: -1, deadline: dl, dlUses: uses}
				c.record(r)
				buf := make([]byte, max(op.N, 1))
				n, err := ce.conn.Read(buf)
				c.finish(r, n, err)
				ce.mu.Lock()
				ce.rUses++
				ce.mu.Unlock()
				if err != nil && !isTimeout(err) {
					return
				}
				if err != nil {
					// a connection that has failed for good may keep answering "time-out" at
					// once (a 0-RTT connection whose handshake timed out does): give up on it
					if timeouts++; timeouts >= 50 {
						return
					}
				} else {
					timeouts = 0
				}
				time.Sleep(time.Microsecond)
			case "close":
				ce.mu.Lock()
				if ce.closedT == 0 {
					ce.closedT = c.now()
				}
				ce.mu.Unlock()
				c.noteKill(key, "close-by-"+a.Side, a.Side)
				r := &callRec{actor: idx, conn: name, op: "close", start: c.now(), end: -1}
				c.record(r)
				err := ce.conn.Close()
				c.finish(r, 0, err)
			}
		}
	}
}

// judge evaluates the bounded-return and deadline oracles over the recorded calls.
func (c *closeRT) judge(stopBound time.Duration) {
	w := c.w
	c.mu.Lock()
	calls := make([]callRec, len(c.calls))
	for i, r := range c.calls {
		calls[i] = *r
	}
	c.mu.Unlock()
	final := c.now()
	tick := 100 * time.Millisecond
	tr := "tcp"
	if len(w.clients) > 0 && w.clients[0].spec.Transport == "udp" {
		tr = "udp"
	}
	for _, r := range calls {
		key := strings.SplitN(r.conn, "/", 2)[0]
		end := r.end
		blocked := end < 0
		if blocked {
			end = final
		}
		w.addCheck(1)
		switch r.op {
		case "close":
			// Close returns promptly: seconds, not the idle-read timeout
			if blocked {
				w.violate("C15", "close-does-not-return:"+c.pressure(key), "%s: Close invoked at %v had not returned %v later (%s)", r.conn, r.start, final-r.start, c.pressure(key))
			} else if end-r.start > stopBound {
				w.violate("C15", "close-too-slow:"+c.pressure(key), "%s: Close took %v (bound %v)", r.conn, end-r.start, stopBound)
			}
		case "read", "write":
			c.mu.Lock()
			kills := append([]killRec(nil), c.kills[key]...)
			c.mu.Unlock()
			// the call must return by the earliest limit that any event puts on it:
			// strict after a Close/Stop at its own end, lenient (idle-timeout scale)
			// after an event at the other end or in the network
			// 0-RTT connections (HANDSHAKE_NO_WAIT): until the application's first Write the
			// session does not exist on the wire; only the client's own Close/Stop can concern it
			fw, zeroRTT := c.firstWriteOf(key, &r)
			earlyAt := func(t time.Duration) bool { return zeroRTT && fw > t } // no Write had started by t
			var limit time.Duration = -1
			var why killRec
			var bnd time.Duration
			for _, k := range kills {
				if earlyAt(k.at) && k.side != "client" {
					continue
				}
				b := 3 * time.Minute
				if k.side == sideOf(r.conn) {
					b = stopBound
				}
				from := k.at
				if r.start > from {
					from = r.start
				}
				if limit < 0 || from+b < limit {
					limit, why, bnd = from+b, k, b
				}
			}
			if limit >= 0 && (blocked || end > limit) {
				state := "returned at " + end.String()
				if blocked {
					state = "still blocked at the end of the run (" + final.String() + ")"
				}
				situation := c.pressure(key)
				c.mu.Lock()
				if da, ok := c.dialAt[key]; ok && why.kind == "client-stop" && da > why.at {
					situation = "dial-completed-after-stop"
				}
				c.mu.Unlock()
				if earlyAt(why.at) {
					situation = "no-wait-before-first-write"
				}
				w.violate("C15", "call-hangs-after-"+kindClass(why.kind)+":"+r.op+":"+situation, "%s: %s started at %v; the session was affected by %s (at the %s side) at %v; %s (bound %v)", r.conn, r.op, r.start, why.kind, why.side, why.at, state, bnd)
			}
			// deadlines: a deadline set before a call bounds that call ...
			if r.deadline > 0 {
				lim := r.deadline
				if r.start > lim {
					lim = r.start
				}
				if blocked || end > lim+tick {
					which := "first-call"
					if r.dlUses > 0 {
						which = "later-call"
					}
					cls := "deadline-not-honoured:" + which + ":" + r.op + ":" + sideOf(r.conn) + ":" + tr
					if earlyAt(lim) {
						cls += ":no-wait-before-first-write"
					}
					w.violate("C15", cls, "%s: %s started at %v with a deadline at %v set earlier and not changed since; it returned at %v (err %q)", r.conn, r.op, r.start, r.deadline, end, r.err)
				}
			}
			// ... and nothing but the user's deadline may time a call out
			killedBefore := false
			c.mu.Lock()
			if c.silentFailureAt > 0 && c.silentFailureAt <= end {
				killedBefore = true // a connection went silent: mieru's own time-outs are how a call ends
			}
			c.mu.Unlock()
			for _, k := range kills {
				if k.at <= end {
					killedBefore = true // the call failed because the session was ended or broken: any error will do
				}
			}
			handshakeWrite := r.op == "write" && sideOf(r.conn) == "client" && c.isNoWait(key) // a 0-RTT Write also performs the handshake, with mieru's own 10 s limit
			if r.err != "" && strings.Contains(strings.ToLower(r.err), "timeout") && !killedBefore && !handshakeWrite {
				if r.deadline == 0 || end < r.deadline-tick {
					w.violate("C15", "timeout-without-deadline:"+r.op+":"+sideOf(r.conn)+":"+tr, "%s: %s started at %v returned a timeout at %v although the deadline in force was %v (0 = none)", r.conn, r.op, r.start, end, r.deadline)
				}
			}
		}
	}
	w.mu.Lock()
	w.probes["close-calls-recorded"] += len(calls)
	w.mu.Unlock()
}

// firstWriteOf: for a client-side Read on a 0-RTT connection, when the first client-side Write
// on that connection started (a huge value if there never was one). Until then the connection
// has sent nothing and its Read waits for the handshake that only that Write performs.
func (c *closeRT) firstWriteOf(key string, r *callRec) (time.Duration, bool) {
	if sideOf(r.conn) != "client" || r.op != "read" {
		return 0, false
	}
	noWait := false
	for _, cl := range c.w.clients {
		for i := range cl.spec.Sessions {
			if sessKey(cl.idx, cl.spec.Sessions[i].ID) == key && cl.spec.NoWait {
				noWait = true
			}
		}
	}
	if !noWait || c.w.Spec.Server.RawMux {
		return 0, false
	}
	c.mu.Lock()
	defer c.mu.Unlock()
	if c.firstWrite == nil {
		// earliest Write per connection, computed once (a run may record 10^5 calls)
		c.firstWrite = map[string]time.Duration{}
		for _, o := range c.calls {
			if o.op == "write" {
				if t, ok := c.firstWrite[o.conn]; !ok || o.start < t {
					c.firstWrite[o.conn] = o.start
				}
			}
		}
	}
	if t, ok := c.firstWrite[r.conn]; ok {
		return t, true
	}
	return 1 << 62, true
}

func (c *closeRT) isNoWait(key string) bool {
	for _, cl := range c.w.clients {
		for i := range cl.spec.Sessions {
			if sessKey(cl.idx, cl.spec.Sessions[i].ID) == key && cl.spec.NoWait {
				return true
			}
		}
	}
	return false
}

func sideOf(conn string) string {
	if i := strings.Index(conn, "/"); i >= 0 {
		return conn[i+1:]
	}
	return conn
}

func kindClass(k string) string {
	switch {
	case strings.HasPrefix(k, "close-by"):
		return "close"
	}
	return k
}

// pressure tells whether the session was under back-pressure (a reader
// actor that stops reading) - used to make finding classes specific.
func (c *closeRT) pressure(key string) string {
	for _, a := range c.cs.Actors {
		if sessKey(a.Client, a.Session) == key && a.Role == "stuck-reader" {
			return "peer-stopped-reading"
		}
	}
	return "normal"
}

func mieruGoroutines() int {
	var buf bytes.Buffer
	pprof.Lookup("goroutine").WriteTo(&buf, 2)
	n := 0
	for _, g := range strings.Split(buf.String(), "\n\n") {
		if strings.Contains(g, "github.com/enfein/mieru/v3/") {
			n++
		}
	}
	return n
}

// leakCheck: after both ends were stopped and 5 virtual minutes passed, no
// goroutine may still run mieru code.
func (c *closeRT) leakCheck() {
	w := c.w
	var buf bytes.Buffer
	pprof.Lookup("goroutine").WriteTo(&buf, 2)
	w.addCheck(1)
	leaked := map[string]int{}
	sample := ""
	for _, g := range strings.Split(buf.String(), "\n\n") {
		if !strings.Contains(g, "github.com/enfein/mieru/v3/") {
			continue
		}
		// a harness actor still blocked inside a mieru call is reported by judge(); count only
		// goroutines that do not pass through the harness
		if strings.Contains(g, "verifsim/sim.") {
			continue
		}
		top := ""
		for _, l := range strings.Split(g, "\n") {
			if strings.HasPrefix(l, "github.com/enfein/mieru/v3/") {
				top = l
				if k := strings.LastIndex(top, "("); k > 0 {
					top = top[:k]
				}
				break
			}
		}
		leaked[top]++
		if sample == "" {
			sample = g
		}
	}
	if len(leaked) > 0 {
		var parts []string
		for k, v := range leaked {
			parts = append(parts, fmt.Sprintf("%s x%d", k, v))
		}
		if len(sample) > 1500 {
			sample = sample[:1500]
		}
		first := ""
		for k := range leaked {
			if first == "" || k < first {
				first = k
			}
		}
		w.violate("C15", "goroutine-left-running:"+first, "5 virtual minutes after client and server were stopped these goroutines still run mieru code: %v\n%s", parts, sample)
	}
}

package sim

import (
	"context"
	"fmt"
	"io"
	"net"
	"sync/atomic"
	"time"

	"github.com/enfein/mieru/v3/pkg/socks5"

	"verifsim/simnet"
	"verifsim/spec"
	"verifsim/vnet"
)

// countingDialer is the ProxyDialer of the client daemon's SOCKS5 front end:
// being reached at all means the daemon decided to serve the request.
type countingDialer struct{ n atomic.Int64 }

func (d *countingDialer) DialContext(ctx context.Context) (net.Conn, error) {
	d.n.Add(1)
	return nil, fmt.Errorf("harness: proxy dial refused on purpose")
}

// scenSocksAuth: C11. A batch of SOCKS5 negotiations against one credential
// configuration; each on a fresh simulated connection with chunking,
// truncation and stalls. The request may be served only after a configured
// user/password pair was presented (or with no credentials configured, after
// the no-authentication method was selected).
func scenSocksAuth(s *spec.RunSpec, res *spec.RunResult, finish func(*World)) {
	w := &World{Spec: s, Res: res, sessions: map[string]*sessRT{}, probes: map[string]int{}, faults: map[string]int{}, states: map[string]struct{}{}, userUp: map[string]int64{}, userDown: map[string]int64{}}
	w.start = time.Now()
	w.Net = simnet.New(s.Seed)
	w.Net.KeepLog = s.KeepLog
	w.Net.BaseLatency = time.Duration(max64(s.Net.LatencyUs, 100)) * time.Microsecond
	w.Net.PolicyFn = func(ci *simnet.ConnInfo, dir simnet.Dir) simnet.StreamPolicy {
		return simnet.StreamPolicy{Latency: w.Net.BaseLatency, ChunkMode: s.Net.ChunkMode, CutAt: -1}
	}
	w.startCapNoWorld(finish)
	as := s.Socks.Auth
	var creds []socks5.Credential
	valid := map[[2]string]bool{}
	for _, c := range as.Creds {
		creds = append(creds, socks5.Credential{User: c[0], Password: c[1]})
		valid[c] = true
	}
	dialer := &countingDialer{}
	host := &vhost{w: w, node: w.Net.Node("10.0.0.1"), name: "server"}
	vnet.ServerHost = host
	cfg := &socks5.Config{HandshakeTimeout: 10 * time.Second, Resolver: simResolver{}}
	if as.ServerSide {
		cfg.AuthOpts = socks5.Auth{ClientSideAuthentication: false, IngressCredentials: creds}
	} else {
		cfg.UseProxy = true
		cfg.ProxyDialer = dialer
		cfg.AuthOpts = socks5.Auth{ClientSideAuthentication: true, IngressCredentials: creds}
	}
	s5, err := socks5.New(cfg)
	if err != nil {
		res.Harness = append(res.Harness, "socks5.New: "+err.Error())
		finish(w)
	}
	daemon := w.Net.Node("10.0.1.1")
	ln, err := daemon.Listen(context.Background(), "tcp", "10.0.1.1:1080")
	if err != nil {
		res.Harness = append(res.Harness, "listen: "+err.Error())
		finish(w)
	}
	go s5.Serve(ln)
	app := w.Net.Node("10.0.3.1")
	served := func() int64 {
		if as.ServerSide {
			host.mu.Lock()
			defer host.mu.Unlock()
			return int64(len(host.dials))
		}
		return dialer.n.Load()
	}
	request := []byte{5, 1, 0, 1, 93, 184, 216, 34, 0, 80}
	for i, c := range as.Cases {
		before := served()
		conn, err := app.DialContext(context.Background(), "tcp", "10.0.1.1:1080")
		if err != nil {
			res.Harness = append(res.Harness, "app dial: "+err.Error())
			break
		}
		sent := 0
		cut := false
		write := func(b []byte) bool {
			for len(b) > 0 && !cut {
				n := len(b)
				if c.Chunk > 0 && n > c.Chunk {
					n = c.Chunk
				}
				if c.CutAt > 0 && sent+n >= c.CutAt {
					n = c.CutAt - sent
					cut = true
				}
				if n > 0 {
					if _, err := conn.Write(b[:n]); err != nil {
						return false
					}
				}
				sent += n
				b = b[n:]
				if c.Chunk > 0 {
					time.Sleep(200 * time.Microsecond)
				}
			}
			return len(b) == 0 // everything was put on the wire (a cut may fall exactly behind it)
		}
		greeting := []byte{5, byte(len(c.Methods))}
		for _, m := range c.Methods {
			greeting = append(greeting, byte(m))
		}
		subneg := append([]byte{byte(c.SubVer), byte(len(c.User))}, c.User...)
		subneg = append(append(subneg, byte(len(c.Pass))), c.Pass...)
		presented := false // a configured pair was put on the wire in a well-formed sub-negotiation
		selected := -1
		conn.SetReadDeadline(time.Now().Add(15 * time.Second))
		if c.Pipeline {
			all := append(append(append([]byte{}, greeting...), subneg...), request...)
			presented = c.SubVer == 1 && valid[[2]string{c.User, c.Pass}]
			write(all)
		} else if write(greeting) {
			rep := make([]byte, 2)
			if _, err := io.ReadFull(conn, rep); err == nil {
				selected = int(rep[1])
				switch rep[1] {
				case 0:
					if c.StallUs > 0 {
						time.Sleep(time.Duration(c.StallUs) * time.Microsecond)
					}
					write(request)
				case 2:
					if write(subneg) {
						presented = c.SubVer == 1 && valid[[2]string{c.User, c.Pass}]
						st := make([]byte, 2)
						if _, err := io.ReadFull(conn, st); err == nil && st[1] == 0 {
							if c.StallUs > 0 {
								time.Sleep(time.Duration(c.StallUs) * time.Microsecond)
							}
							write(request)
						}
					}
				}
			}
		}
		if cut {
			w.fault("socks-truncated")
			conn.Close()
		}
		// wait for the daemon to act (bounded), then close
		time.Sleep(50 * time.Millisecond)
		conn.SetReadDeadline(time.Now().Add(100 * time.Millisecond))
		io.Copy(io.Discard, conn)
		conn.Close()
		time.Sleep(20 * time.Millisecond)
		after := served()
		reached := after > before
		w.addCheck(1)
		has02, has00 := false, false
		for _, m := range c.Methods {
			if m == 2 {
				has02 = true
			}
			if m == 0 {
				has00 = true
			}
		}
		_ = has02
		side := "client-side"
		if as.ServerSide {
			side = "server-side"
		}
		desc := fmt.Sprintf("case %d (%s auth, %d credential(s) configured): methods %v, sub-negotiation ver %d user %q pass-len %d, pipeline=%v cutAt=%d stall=%dus chunk=%d; server selected method %d", i, side, len(creds), c.Methods, c.SubVer, c.User, len(c.Pass), c.Pipeline, c.CutAt, c.StallUs, c.Chunk, selected)
		if len(creds) > 0 {
			if reached && !presented {
				cls := "served-without-credentials"
				if selected == 0 && has02 {
					cls += ":no-auth-preferred-over-userpass"
				} else if selected == 0 {
					cls += ":no-auth-selected"
				}
				w.violate("C11", cls, "%s: the request was served although no configured user/password pair was presented", desc)
			}
			if !reached && presented && c.CutAt == 0 && c.StallUs < 9000000 && !c.Pipeline && selected == 2 {
				w.violate("C11", "valid-credentials-refused", "%s: a configured pair was presented but the request was not served", desc)
			}
		} else {
			if reached && !has00 {
				w.violate("C11", "served-userpass-without-configuration", "%s: no credentials are configured, yet a negotiation that did not offer no-authentication was served", desc)
			}
			if selected == 2 {
				w.violate("C11", "userpass-accepted-without-configuration", "%s: no credentials are configured but the server selected username/password", desc)
			}
			if !reached && has00 && c.CutAt == 0 && c.StallUs < 9000000 && !c.Pipeline && selected == 0 {
				w.violate("C11", "no-auth-refused-without-configuration", "%s: no credentials are configured and no-authentication was selected, but the request was not served", desc)
			}
		}
		w.probe(fmt.Sprintf("auth-selected-%d", selected))
		if reached {
			w.probe("auth-request-served")
		}
	}
	s5.Close()
	res.Completed = true
	res.NonTrivial = w.checks.Load() > 0
	finish(w)
}

// startCapNoWorld is startCap for scenarios that have no mieru nodes.
func (w *World) startCapNoWorld(finish func(*World)) {
	capD := time.Duration(w.Spec.VirtualCapS) * time.Second
	if capD <= 0 {
		capD = 60 * time.Minute
	}
	go func() {
		time.Sleep(capD)
		w.Res.CapHit = true
		w.harness("virtual-time cap hit in a scenario without liveness oracle")
		finish(w)
	}()
}

package sim

import (
	"context"
	"encoding/binary"
	"fmt"
	"net"
	"os"
	"strings"
	"sync"
	"time"

	"github.com/enfein/mieru/v3/apis/server"

	"verifsim/refproto"
	"verifsim/simnet"
	"verifsim/spec"
)

func init() { scenarios["attack"] = scenAttack }

// scenAttack: the genuine C01/C02 workload plus attacker actors — probers
// without a credential (C05), replayers that own everything the tap recorded
// (C06), and a hostile peer holding a valid credential (C10).
func scenAttack(s *spec.RunSpec, res *spec.RunResult, finish func(*World)) {
	w, err := NewWorld(s, res)
	if err != nil {
		res.Harness = append(res.Harness, "world: "+err.Error())
		finish(nil)
	}
	w.startCap(finish)
	go w.serverAcceptLoop()
	w.scheduleTimedStreamFaults()
	var awg sync.WaitGroup
	var probes []*probeRT
	if s.Attack != nil {
		for i := range s.Attack.Probes {
			p := &probeRT{w: w, idx: i, p: &s.Attack.Probes[i]}
			probes = append(probes, p)
			if p.p.Kind != "hostile" {
				w.Tap.MarkAttacker(p.p.IP + ":")
			} else {
				w.Tap.MarkHostile(p.p.IP + ":")
			}
		}
	}
	workloadDone := make(chan struct{})
	for _, p := range probes {
		p := p
		awg.Add(1)
		go func() {
			defer awg.Done()
			p.run(workloadDone)
		}()
	}
	stopSampler := make(chan struct{})
	go w.sampleSessionList(stopSampler)
	w.runWorkload()
	close(workloadDone)
	awg.Wait()
	close(stopSampler)
	// oracles over the recorded history
	for _, p := range probes {
		p.judge()
	}
	w.finalChecks(false)
	w.stopAll()
	res.Completed = true
	finish(w)
}

type probeRT struct {
	w        *World
	idx      int
	p        *spec.Probe
	sent     int
	gotBytes int
	gotErr   string
	started  bool
	skipped  string
	desc     string
}

func (w *World) attackProp() string { return w.Spec.Property }

// sampleSessionList watches the server's session list: no session may have an
// attacker's address as its remote end (TCP underlays expose it).
func (w *World) sampleSessionList(stop chan struct{}) {
	mux := server.VerifMux(w.srv)
	if mux == nil {
		return
	}
	for {
		select {
		case <-stop:
			return
		case <-time.After(20 * time.Millisecond):
		}
		list := mux.ExportSessionInfoList()
		w.addCheck(1)
		for _, it := range list.GetItems() {
			ra := it.GetRemoteAddr()
			if w.Tap.isAttackerLocked(ra) {
				w.violate(w.attackProp(), "session-created-for-attacker", "server session list contains session %s with remote %s (an attacker address), state %s", it.GetId(), ra, it.GetState())
			}
		}
	}
}

func (p *probeRT) rng() *simnet.Rng {
	return simnet.NewRng(p.w.Spec.Seed^p.p.Seed, fmt.Sprintf("probe-%d", p.idx))
}

// pollEvery: every probe polls with its own period, so that hundreds of probes never wake at
// the same virtual instant (the order in which the runtime runs a herd of goroutines released
// at one instant is not worth making part of the replay contract).
func (p *probeRT) pollEvery() time.Duration {
	if os.Getenv("VSIM_NOSTAGGER") != "" {
		return 5 * time.Millisecond
	}
	return 5*time.Millisecond + time.Duration(p.idx+1)*time.Microsecond
}

func (p *probeRT) waitStart() {
	if d := time.Duration(p.p.AtUs)*time.Microsecond - time.Since(p.w.start); d > 0 {
		time.Sleep(d)
	}
}

// sourceMaterial waits for and returns recorded genuine traffic of the source client.
func (p *probeRT) sourceStream(done chan struct{}) ([]byte, []spec.SegGeo) {
	w := p.w
	for i := 0; i < 4000; i++ {
		// (cheap test first: streamOfClient copies everything recorded so far)
		ok := w.Tap.hasAnsweredStream(p.p.Source)
		if p.p.AfterEnd {
			ok = ok && w.clientSessionsEnded(p.p.Source)
		}
		if ok {
			if b, g := w.Tap.streamOfClient(p.p.Source); len(g) > 0 {
				return b, g
			}
		}
		select {
		case <-done:
			b, g := w.Tap.streamOfClient(p.p.Source)
			return b, g
		case <-time.After(p.pollEvery()):
		}
	}
	return nil, nil
}

func (p *probeRT) sourceDatagrams(done chan struct{}) [][]byte {
	w := p.w
	for i := 0; i < 4000; i++ {
		ok := true
		if p.p.AfterEnd {
			ok = w.clientSessionsEnded(p.p.Source)
		}
		if ok {
			if ds := w.Tap.datagramsOfClient(p.p.Source); len(ds) > 0 {
				return ds
			}
		}
		select {
		case <-done:
			return w.Tap.datagramsOfClient(p.p.Source)
		case <-time.After(p.pollEvery()):
		}
	}
	return nil
}

func (w *World) clientSessionsEnded(ci int) bool {
	w.mu.Lock()
	defer w.mu.Unlock()
	n := 0
	for _, rt := range w.sessions {
		if rt.ci != ci {
			continue
		}
		n++
		rt.dirs[1].mu.Lock()
		e := rt.dirs[1].readEnd
		rt.dirs[1].mu.Unlock()
		if e == "" {
			return false
		}
	}
	return n > 0
}

func (p *probeRT) run(done chan struct{}) {
	_ = p.w
	p.waitStart()
	r := p.rng()
	pr := p.p
	var payloads [][]byte // tcp: written in order on one connection; udp: one datagram each
	switch pr.Kind {
	case "random":
		b := make([]byte, pr.Len)
		for i := range b {
			b[i] = byte(r.Intn(256))
		}
		payloads = [][]byte{b}
	case "prefix", "bitflip", "trunc", "replay-first":
		var first []byte
		if pr.Intercepted {
			for i := 0; i < 4000 && first == nil; i++ {
				if first = p.w.Tap.firstSegmentAny(pr.Source, pr.Transport == "udp"); first == nil {
					select {
					case <-done:
						i = 4000
					case <-time.After(p.pollEvery()):
					}
				}
			}
			if first == nil {
				p.skipped = "no intercepted segment"
				return
			}
			if pr.CutTail > 0 {
				pr.Arg = len(first) - pr.CutTail
			}
			if (pr.Kind != "prefix" && pr.Kind != "trunc") || pr.Arg >= len(first) || pr.Arg < 0 {
				p.skipped = "not a proper prefix of the intercepted segment"
				return
			}
		} else if pr.Transport == "tcp" {
			b, g := p.sourceStream(done)
			if len(g) == 0 {
				p.skipped = "no source stream"
				return
			}
			first = b[g[0].Start:g[0].End]
		} else {
			ds := p.sourceDatagrams(done)
			if len(ds) == 0 {
				p.skipped = "no source datagrams"
				return
			}
			first = ds[0]
		}
		first = append([]byte(nil), first...)
		if pr.AfterEnd && pr.AfterEndDelayUs > 0 {
			// (the scenario waits for its probes, so the run lasts as long as this takes)
			if os.Getenv("VSIM_NOSTAGGER") != "" {
				select {
				case <-done:
				case <-time.After(time.Duration(pr.AfterEndDelayUs) * time.Microsecond):
				}
			} else {
				time.Sleep(time.Duration(pr.AfterEndDelayUs)*time.Microsecond + time.Duration(p.idx)*time.Microsecond)
			}
		}
		switch pr.Kind {
		case "prefix", "trunc":
			k := pr.Arg
			if k > len(first) {
				k = len(first)
			}
			if k < 0 {
				k = 0
			}
			first = first[:k]
		case "bitflip":
			bit := pr.Arg % (len(first) * 8)
			if pr.Arg < 0 {
				bit = len(first)*8 - 1 - (-pr.Arg-1)%(len(first)*8) // counted from the last bit
			}
			first[bit/8] ^= 1 << (bit % 8)
		}
		payloads = [][]byte{first}
	case "replay-stream", "replay-prefix":
		b, g := p.sourceStream(done)
		if len(g) == 0 {
			p.skipped = "no source stream"
			return
		}
		end := int64(len(b))
		if pr.Kind == "replay-prefix" {
			k := pr.Arg % len(g)
			end = g[k].End
		}
		if end > int64(len(b)) {
			end = int64(len(b))
		}
		payloads = [][]byte{append([]byte(nil), b[:end]...)}
	case "replay-dgrams", "replay-first-dgram":
		ds := p.sourceDatagrams(done)
		if len(ds) == 0 {
			p.skipped = "no source datagrams"
			return
		}
		if pr.Kind == "replay-first-dgram" {
			ds = ds[:1]
		} else if pr.Count > 0 && len(ds) > pr.Count {
			ds = ds[:pr.Count]
		}
		payloads = ds
	case "foreign-user", "wrong-password", "stolen-hint":
		payloads = p.forgedHandshake(r)
	case "hostile":
		p.runHostile(r, done)
		return
	default:
		p.skipped = "unknown kind"
		return
	}
	p.started = true
	if pr.Transport == "tcp" {
		p.tcpSend(payloads, r)
	} else {
		p.udpSend(payloads, r)
	}
}

// forgedHandshake builds a well-formed open-session request (with a SOCKS
// request inside) under a credential that is not registered.
func (p *probeRT) forgedHandshake(r *simnet.Rng) [][]byte {
	w := p.w
	users := w.Spec.Server.Users
	real := users[r.Intn(len(users))]
	cred := refproto.Cred{User: fmt.Sprintf("intruder-%d", r.Intn(1000)), Password: "nopass"}
	hintUser := cred.User
	switch p.p.Kind {
	case "wrong-password":
		cred = refproto.Cred{User: real.Name, Password: real.Password + "x"}
		hintUser = real.Name
	case "stolen-hint":
		hintUser = real.Name // unregistered key, but the hint names a real user
	}
	now := time.Now().Unix()
	key := refproto.KeyForSlot(refproto.HashedPassword(cred), refproto.SlotOf(now))
	var nonce [24]byte
	for i := range nonce {
		nonce[i] = byte(r.Intn(256))
	}
	socksReq := []byte{5, 1, 0, 3, 8, 'e', 'v', 'i', 'l', '.', 's', 'i', 'm', 0, 80}
	m := refproto.Meta{Type: refproto.TypeOpenReq, TimestampMin: uint32(now / 60), SessionID: uint32(1 + r.Intn(1<<30)), Seq: 0}
	opts := refproto.EncodeOpts{Padding2: make([]byte, r.Intn(200))}
	var out []byte
	var err error
	if p.p.Transport == "tcp" {
		enc := refproto.NewStreamEncoder(key, hintUser, nonce)
		out, err = enc.Encode(m, socksReq, opts)
		if err == nil {
			// follow with a data segment
			m2 := refproto.Meta{Type: refproto.TypeDataC2S, TimestampMin: uint32(now / 60), SessionID: m.SessionID, Seq: 1, Window: 256}
			more, _ := enc.Encode(m2, []byte("hello"), refproto.EncodeOpts{})
			out = append(out, more...)
		}
	} else {
		out, err = refproto.EncodeDatagram(key, hintUser, nonce, m, socksReq, opts)
	}
	if err != nil {
		p.skipped = "encode: " + err.Error()
		return nil
	}
	return [][]byte{out}
}

func (p *probeRT) attackerNode() *simnet.Node { return p.w.Net.Node(p.p.IP) }

func (p *probeRT) serverAddr() string {
	s := &p.w.Spec.Server
	port := s.TCPPort
	if p.p.Transport == "udp" {
		port = s.UDPPort
	}
	if p.p.Port != 0 {
		port = p.p.Port
	}
	return net.JoinHostPort(s.IP, fmt.Sprint(port))
}

func (p *probeRT) tcpSend(payloads [][]byte, r *simnet.Rng) {
	conn, err := p.attackerNode().DialContext(context.Background(), "tcp", p.serverAddr())
	if err != nil {
		p.skipped = "dial: " + err.Error()
		return
	}
	defer conn.Close()
	conn.SetWriteDeadline(time.Now().Add(30 * time.Second))
	for _, b := range payloads {
		if p.p.Dribble {
			for len(b) > 0 {
				n := 1 + r.Intn(40)
				if n > len(b) {
					n = len(b)
				}
				if _, err := conn.Write(b[:n]); err != nil {
					p.gotErr = err.Error()
					break
				}
				p.sent += n
				b = b[n:]
				time.Sleep(time.Duration(1+r.Intn(3000)) * time.Microsecond)
			}
		} else {
			n, err := conn.Write(b)
			p.sent += n
			if err != nil {
				p.gotErr = err.Error()
			}
		}
	}
	hold := time.Duration(p.p.HoldUs) * time.Microsecond
	if hold <= 0 {
		hold = 2 * time.Second
	}
	conn.SetReadDeadline(time.Now().Add(hold))
	buf := make([]byte, 4096)
	for {
		n, err := conn.Read(buf)
		p.gotBytes += n
		if err != nil {
			break
		}
	}
}

func (p *probeRT) udpSend(payloads [][]byte, r *simnet.Rng) {
	pc, err := simnet.PacketDialer{Node: p.attackerNode()}.ListenPacket(context.Background(), "udp", "", p.serverAddr())
	if err != nil {
		p.skipped = "listen: " + err.Error()
		return
	}
	defer pc.Close()
	host, portStr, _ := net.SplitHostPort(p.serverAddr())
	var port int
	fmt.Sscan(portStr, &port)
	dst := &net.UDPAddr{IP: net.ParseIP(host), Port: port}
	for _, b := range payloads {
		pc.WriteTo(b, dst)
		p.sent++
		time.Sleep(time.Duration(1+r.Intn(2000)) * time.Microsecond)
	}
	hold := time.Duration(p.p.HoldUs) * time.Microsecond
	if hold <= 0 {
		hold = 2 * time.Second
	}
	pc.SetReadDeadline(time.Now().Add(hold))
	buf := make([]byte, 2048)
	for {
		n, _, err := pc.ReadFrom(buf)
		if err != nil {
			break
		}
		if n >= 0 {
			p.gotBytes += n + 1
		}
	}
}

// judge evaluates the zero-reply oracle for this probe after the run.
func (p *probeRT) judge() {
	w := p.w
	w.probe("probe-" + p.p.Kind + "-" + p.p.Transport)
	if p.skipped != "" {
		w.probe("probe-skipped")
	}
	if p.p.Kind == "hostile" || !p.started {
		return
	}
	w.addCheck(1)
	replies := w.Tap.RepliesTo(p.p.IP + ":")
	if replies > 0 || p.gotBytes > 0 {
		w.violate(w.attackProp(), "reply-to-"+classOfProbe(p.p.Kind)+":"+p.p.Transport, "probe %d (%s over %s from %s, sent %d): the server sent %d bytes/datagrams back (attacker read %d)", p.idx, p.p.Kind, p.p.Transport, p.p.IP, p.sent, replies, p.gotBytes)
	}
}

func classOfProbe(kind string) string {
	if strings.HasPrefix(kind, "replay") {
		return "replay"
	}
	switch kind {
	case "foreign-user", "wrong-password", "stolen-hint":
		return "foreign-credential"
	}
	return kind
}

// ---------------------------------------------------------------------------
// hostile authenticated peer (C10)

func (p *probeRT) runHostile(r *simnet.Rng, done chan struct{}) {
	w := p.w
	u := w.Spec.Server.Users[p.p.User%len(w.Spec.Server.Users)]
	cred := refproto.Cred{User: u.Name, Password: u.Password}
	count := p.p.Count
	if count <= 0 {
		count = 40
	}
	p.started = true
	var pc net.PacketConn
	var conn net.Conn
	var enc *refproto.StreamEncoder
	var dst *net.UDPAddr
	if p.p.Transport == "udp" {
		var err error
		pc, err = simnet.PacketDialer{Node: p.attackerNode()}.ListenPacket(context.Background(), "udp", "", p.serverAddr())
		if err != nil {
			p.skipped = err.Error()
			return
		}
		defer pc.Close()
		host, portStr, _ := net.SplitHostPort(p.serverAddr())
		var port int
		fmt.Sscan(portStr, &port)
		dst = &net.UDPAddr{IP: net.ParseIP(host), Port: port}
		go func() { // drain replies
			buf := make([]byte, 2048)
			for {
				if _, _, err := pc.ReadFrom(buf); err != nil {
					return
				}
			}
		}()
	}
	ownSession := uint32(1 + r.Intn(1<<30))
	for i := 0; i < count; i++ {
		now := time.Now().Unix()
		key := refproto.KeyForSlot(refproto.HashedPassword(cred), refproto.SlotOf(now))
		m := refproto.Meta{TimestampMin: uint32(now / 60)}
		// protocol type: mostly defined ones, sometimes anything
		switch r.Intn(10) {
		case 0:
			m.Type = uint8(r.Intn(256))
		case 1:
			m.Type = uint8(r.Pick(0, 1, 12, 13, 255))
		case 2, 3:
			m.Type = uint8(r.Pick(3, 5, 7, 9, 11)) // server-to-client types sent to a server
		default:
			m.Type = uint8(r.Pick(2, 2, 4, 5, 6, 6, 6, 8, 10))
		}
		if i == 0 && r.Bool(0.6) {
			m.Type = refproto.TypeOpenReq
		}
		switch r.Intn(6) {
		case 0:
			m.SessionID = 0
		case 1:
			m.SessionID = uint32(r.U64())
		case 2, 3:
			if ids := w.Tap.victimSessionIDs(p.p.Transport); len(ids) > 0 {
				m.SessionID = ids[r.Intn(len(ids))]
				w.probe("hostile-used-victim-session-id")
			} else {
				m.SessionID = ownSession
			}
		default:
			m.SessionID = ownSession
		}
		m.Seq = uint32(r.Pick(0, 1, 2, i, 4095, 4096, 1<<31, 0xffffffff, r.Intn(100)))
		m.UnAckSeq = uint32(r.Pick(0, 1, i, 4096, 0xffffffff, r.Intn(100)))
		m.Window = uint16(r.Pick(0, 1, 16, 4096, 65535))
		m.Fragment = uint8(r.Pick(0, 0, 1, 255, r.Intn(256)))
		m.Status = uint8(r.Pick(0, 0, 1, 2, 255))
		m.Byte1 = uint8(r.Pick(1, 2, 3, 4, 0, 5, 255))
		m.LERotation = uint8(r.Pick(0, 1, 15, 16, 240, 17, 255))
		m.LEMask = leMaskFor(m.Byte1, r)
		plen := r.Pick(0, 0, 1, 10, 100, 1024, 1025, 1200)
		if p.p.Transport == "tcp" {
			plen = r.Pick(0, 0, 1, 10, 1024, 1025, 5000, 32768)
		}
		payload := make([]byte, plen)
		for j := range payload {
			payload[j] = byte(r.Intn(256))
		}
		opts := refproto.EncodeOpts{Padding1: make([]byte, r.Pick(0, 0, 3, 255)), Padding2: make([]byte, r.Pick(0, 0, 7, 255))}
		if m.Type >= 2 && m.Type <= 5 {
			opts.Padding1 = nil
		}
		if r.Bool(0.25) {
			// inconsistent lengths on purpose
			opts.OverrideLens = true
			m.PrefixLen = uint8(len(opts.Padding1))
			m.SuffixLen = uint8(r.Pick(len(opts.Padding2), 0, 255))
			m.PayloadLen = uint16(r.Pick(len(payload), 0, 1, 65535, len(payload)+1))
			m.ExtractedLen = uint16(r.Pick(len(payload), 0, 65535, 32769))
		}
		if m.Type > 11 || m.Type < 2 {
			opts.RawMeta = true
			raw := m.Marshal()
			raw[0] = m.Type
			binary.BigEndian.PutUint32(raw[2:], m.TimestampMin)
			binary.BigEndian.PutUint32(raw[6:], m.SessionID)
			m.Raw = raw
		}
		var nonce [24]byte
		for j := range nonce {
			nonce[j] = byte(r.Intn(256))
		}
		if p.p.Transport == "udp" {
			b, err := refproto.EncodeDatagram(key, cred.User, nonce, m, payload, opts)
			if err != nil {
				w.probe("hostile-encode-error")
				continue
			}
			if len(b) > 1500 {
				b = b[:1500]
			}
			pc.WriteTo(b, dst)
			p.sent++
		} else {
			if conn == nil {
				c, err := p.attackerNode().DialContext(context.Background(), "tcp", p.serverAddr())
				if err != nil {
					p.skipped = err.Error()
					return
				}
				conn = c
				enc = refproto.NewStreamEncoder(key, cred.User, nonce)
				go func(c net.Conn) {
					buf := make([]byte, 4096)
					for {
						if _, err := c.Read(buf); err != nil {
							return
						}
					}
				}(c)
			}
			b, err := enc.Encode(m, payload, opts)
			if err != nil {
				w.probe("hostile-encode-error")
				continue
			}
			conn.SetWriteDeadline(time.Now().Add(2 * time.Second))
			if _, err := conn.Write(b); err != nil {
				// the server dropped us (or stopped reading): reconnect with a fresh stream
				conn.Close()
				conn = nil
				w.probe("hostile-tcp-reconnect")
				continue
			}
			p.sent++
		}
		time.Sleep(time.Duration(r.Pick(1, 100, 2000, 50000)) * time.Microsecond)
	}
	if conn != nil {
		time.Sleep(100 * time.Millisecond)
		conn.Close()
	}
	w.mu.Lock()
	w.probes["hostile-segments-sent"] += p.sent
	w.mu.Unlock()
}

func leMaskFor(mode uint8, r *simnet.Rng) uint32 {
	want := 0
	switch mode {
	case 1:
		want = 16
	case 2:
		want = 20
	case 3:
		want = 24
	case 4:
		want = 28
	default:
		return uint32(r.U64())
	}
	if r.Bool(0.15) {
		return uint32(r.U64()) // wrong weight
	}
	var m uint32
	pos := r.Intn(32)
	for n := 0; n < want; {
		if m&(1<<uint(pos)) == 0 {
			m |= 1 << uint(pos)
			n++
		}
		pos = (pos + 1 + r.Intn(3)) % 32
	}
	return m
}

package sim

import (
	"fmt"
	"os"
	"runtime"
	"sync"
	"testing"
	"testing/synctest"
	"time"
)

// TestHerd is a determinism probe for the runtime overlay (not part of any check):
// VSIM_HERD=<n> goroutines poll with a common period and are released together.
func TestHerd(t *testing.T) {
	if os.Getenv("VSIM_HERD") == "" {
		t.Skip()
	}
	n := 200
	fmt.Sscan(os.Getenv("VSIM_HERD"), &n)
	runtime.VerifSetSeed(12345)
	synctest.Test(t, func(t *testing.T) {
		var mu sync.Mutex
		var order []int
		done := make(chan struct{})
		var wg sync.WaitGroup
		for i := 0; i < n; i++ {
			i := i
			wg.Add(1)
			go func() {
				defer wg.Done()
				time.Sleep(500 * time.Millisecond)
				for k := 0; k < 600; k++ {
					select {
					case <-done:
						mu.Lock()
						order = append(order, i)
						mu.Unlock()
						return
					case <-time.After(5 * time.Millisecond):
					}
				}
			}()
		}
		time.Sleep(2*time.Second + 300*time.Microsecond)
		close(done)
		wg.Wait()
		h := uint64(14695981039346656037)
		for _, v := range order {
			h = (h ^ uint64(v)) * 1099511628211
		}
		fmt.Fprintf(os.Stderr, "HERD %d %x first=%v\n", len(order), h, order[:8])
	})
}

package sim

import (
	"errors"
	"fmt"
	"io"
	"net"
	"strings"
	"sync"
	"time"

	apicommon "github.com/enfein/mieru/v3/apis/common"
	"github.com/enfein/mieru/v3/apis/model"
	"github.com/enfein/mieru/v3/apis/server"

	"verifsim/spec"
)

// dirRT is the oracle state of one direction of one proxy connection.
type dirRT struct {
	prf        prfStream
	mu         sync.Mutex
	writtenOK  int64 // bytes of fully successful Write calls
	writtenMax int64 // including the n of a failed Write
	writeErr   string
	writeDone  bool
	lastWrite  time.Duration // virtual time the last successful write returned
	read       int64
	readEnd    string // "", "eof", "err:...", "done"
	expected   int64  // what the script intends to write
	lastProg   time.Duration
	completeAt time.Duration // when read reached expected (0: not yet)
	timeouts   int
}

// sessRT is the runtime of one scripted proxy connection.
type sessRT struct {
	w                          *World
	key                        string
	ci, si                     int
	spec                       *spec.Session
	cli                        *clientRT
	cconn                      net.Conn
	sconn                      net.Conn
	dirs                       [2]*dirRT // 0: c2s, 1: s2c
	sready                     chan struct{}
	acceptedAt                 time.Duration    // when the server application got the session from Accept
	readDone                   [2]chan struct{} // closed when the reader of that direction has read everything expected
	wrDone                     [2]chan struct{} // closed when the writer of that direction has returned from its last Write
	closing                    chan struct{}    // closed when the harness starts closing the session
	closeOne                   sync.Once
	abort                      chan struct{} // closed when any call on either end failed: the barrier gives up
	abortOne                   sync.Once
	dialErr                    string
	user                       string
	totalAtDial0, totalAtDial1 int64 // the user's counted traffic when the dial started / returned
	dialled                    bool
	wg                         sync.WaitGroup
}

func isTimeout(err error) bool {
	var ne net.Error
	if errors.As(err, &ne) && ne.Timeout() {
		return true
	}
	e := strings.ToLower(err.Error())
	return strings.Contains(e, "timeout") || strings.Contains(e, "time out")
}

func errClass(err error) string {
	if err == nil {
		return ""
	}
	// io.Reader: "Read must return EOF itself, not an error wrapping EOF, because callers will
	// test for EOF using ==". An error that merely wraps EOF ("failed to read socks5 response
	// ...: EOF") is an error report, not a clean end of stream.
	if err == io.EOF {
		return "eof"
	}
	return "err:" + err.Error()
}

func (w *World) newSession(c *clientRT, s *spec.Session) *sessRT {
	key := sessKey(c.idx, s.ID)
	rt := &sessRT{w: w, key: key, ci: c.idx, si: s.ID, spec: s, cli: c, sready: make(chan struct{}), closing: make(chan struct{}), abort: make(chan struct{})}
	connKey := c.idx*1000 + s.ID
	for d := 0; d < 2; d++ {
		rt.dirs[d] = &dirRT{prf: newPRF(w.Spec.Seed, connKey, d)}
		rt.readDone[d] = make(chan struct{})
		rt.wrDone[d] = make(chan struct{})
	}
	for _, n := range s.C2S.Writes {
		rt.dirs[0].expected += int64(n)
	}
	for _, n := range s.S2C.Writes {
		rt.dirs[1].expected += int64(n)
	}
	w.mu.Lock()
	w.sessions[key] = rt
	w.mu.Unlock()
	return rt
}

// runClientSide dials and runs the client end of one session.
func (rt *sessRT) runClientSide() {
	w := rt.w
	defer w.wg.Done()
	if d := time.Duration(rt.spec.StartUs)*time.Microsecond - time.Since(w.start); d > 0 {
		time.Sleep(d)
	}
	specUser := w.Spec.Server.Users[rt.cli.spec.User].Name
	rt.totalAtDial0 = w.userTotal(specUser)
	conn, err := w.dial(rt.cli, rt.key, rt.spec.UDPAssoc)
	rt.totalAtDial1 = w.userTotal(specUser)
	rt.dialled = true
	if err != nil {
		rt.dialErr = err.Error()
		if conn != nil {
			conn.Close() // DialContext may return a conn together with an error
		}
		rt.finishDirs("dial-failed")
		return
	}
	rt.cconn = conn
	rt.runEnd(conn, true)
}

// runServerSide runs the server end after Accept.
func (rt *sessRT) runServerSide(conn net.Conn) {
	defer rt.w.wg.Done()
	rt.sconn = conn
	rt.acceptedAt = time.Duration(rt.w.nowUs()) * time.Microsecond
	if uc, ok := conn.(apicommon.UserContext); ok {
		rt.user = uc.UserName()
	}
	close(rt.sready)
	rt.runEnd(conn, false)
}

func (rt *sessRT) giveUp() { rt.abortOne.Do(func() { close(rt.abort) }) }

func (rt *sessRT) finishDirs(why string) {
	rt.giveUp()
	for d := 0; d < 2; d++ {
		dr := rt.dirs[d]
		dr.mu.Lock()
		if dr.readEnd == "" {
			dr.readEnd = why
		}
		dr.writeDone = true
		dr.mu.Unlock()
	}
}

// runEnd runs a writer and a reader goroutine on one end and then the close
// protocol.
func (rt *sessRT) runEnd(conn net.Conn, isClient bool) {
	_ = rt.w
	wd, rd := 0, 1 // client writes c2s, reads s2c
	script, peerScript := &rt.spec.C2S, &rt.spec.S2C
	if !isClient {
		wd, rd = 1, 0
		script, peerScript = &rt.spec.S2C, &rt.spec.C2S
	}
	_ = peerScript
	var inner sync.WaitGroup
	writerDone := make(chan struct{})
	inner.Add(2)
	go func() {
		defer inner.Done()
		defer close(writerDone)
		defer close(rt.wrDone[wd])
		rt.writer(conn, rt.dirs[wd], script, isClient)
	}()
	go func() {
		defer inner.Done()
		rt.reader(conn, rt.dirs[rd], script, rd, isClient)
	}()

	me := "server"
	if isClient {
		me = "client"
	}
	switch rt.spec.CloseMode {
	case "barrier":
		if rt.spec.Closer == me {
			<-writerDone
			// Wait until both readers have everything (or gave up).
			// (and both writers have returned: in 0-RTT mode the client's first
			// Write returns only after it has read the server's SOCKS reply)
			rt.waitOrCap(rt.readDone[0], 10*time.Minute)
			rt.waitOrCap(rt.readDone[1], 10*time.Minute)
			rt.waitOrCap(rt.wrDone[0], 10*time.Minute)
			rt.waitOrCap(rt.wrDone[1], 10*time.Minute)
			time.Sleep(time.Duration(max64(rt.spec.CloseDelayUs, 1)) * time.Microsecond)
			rt.closeOne.Do(func() { close(rt.closing) })
			conn.Close()
		}
	case "afterwrite":
		if rt.spec.Closer == me {
			<-writerDone
			time.Sleep(time.Duration(max64(rt.spec.CloseDelayUs, 0)) * time.Microsecond)
			rt.closeOne.Do(func() { close(rt.closing) })
			conn.Close()
		}
	}
	inner.Wait()
	// Reader ended (EOF, error, or cap): close our end too.
	conn.Close()
}

func (rt *sessRT) waitOrCap(ch chan struct{}, d time.Duration) {
	t := time.NewTimer(d)
	defer t.Stop()
	select {
	case <-ch:
	case <-rt.abort:
	case <-t.C:
	}
}

func (rt *sessRT) writer(conn net.Conn, dr *dirRT, sc *spec.Script, isClient bool) {
	w := rt.w
	var off int64
	for i, size := range sc.Writes {
		gap := int64(1)
		if len(sc.GapsUs) > 0 {
			gap = sc.GapsUs[i%len(sc.GapsUs)]
		}
		if gap < 1 {
			gap = 1
		}
		time.Sleep(time.Duration(gap) * time.Microsecond)
		buf := dr.prf.Bytes(off, size)
		n, err := conn.Write(buf)
		// the application reuses its buffer as soon as Write has returned (io.Writer: "Write
		// must not retain p"), as every relay loop does
		for k := range buf {
			buf[k] ^= 0xA5
		}
		dr.mu.Lock()
		if n > 0 || err == nil {
			dr.writtenMax += int64(n)
		}
		if err != nil {
			dr.writeErr = err.Error()
			dr.writeDone = true
			dr.mu.Unlock()
			rt.giveUp()
			return
		}
		if n != size {
			dr.mu.Unlock()
			w.violate(rt.streamProp(), "short-write-no-error", "%s write %d returned n=%d of %d with nil error", rt.key, i, n, size)
			dr.mu.Lock()
			dr.writeDone = true
			dr.mu.Unlock()
			return
		}
		dr.writtenOK += int64(n)
		if !isClient {
			w.account(rt.user, 0, int64(n))
		}
		dr.lastWrite = time.Since(w.start)
		dr.mu.Unlock()
		off += int64(n)
	}
	dr.mu.Lock()
	dr.writeDone = true
	dr.mu.Unlock()
}

func (rt *sessRT) streamProp() string {
	switch rt.w.Spec.Property {
	case "C04", "C05", "C06", "C08", "C10":
		// the genuine workload's stream oracle is part of these properties
		return rt.w.Spec.Property
	}
	if rt.cli.spec.Transport == "udp" {
		return "C02"
	}
	return "C01"
}

func (rt *sessRT) reader(conn net.Conn, dr *dirRT, sc *spec.Script, rd int, isClient bool) {
	w := rt.w
	doneSignalled := false
	signalDone := func() {
		if !doneSignalled {
			doneSignalled = true
			close(rt.readDone[rd])
		}
	}
	defer signalDone()
	if dr.expected == 0 {
		signalDone()
	}
	think := sc.ReadGapUs
	if think < 1 {
		think = 1
	}
	bufs := map[int][]byte{}
	if sc.ReadDelayUs > 0 {
		select {
		case <-time.After(time.Duration(sc.ReadDelayUs) * time.Microsecond):
			w.fault("app-slow-reader")
		case <-rt.abort:
		}
	}
	for i := 0; ; i++ {
		bs := 32768
		if len(sc.ReadBufs) > 0 {
			bs = sc.ReadBufs[i%len(sc.ReadBufs)]
		}
		if bs < 1 {
			bs = 1
		}
		if sc.StopRead > 0 && dr.read >= sc.StopRead {
			// Stuck reader: stop consuming, wait for the session to be closed.
			dr.mu.Lock()
			dr.readEnd = "stopped"
			dr.mu.Unlock()
			signalDone()
			<-rt.closing
			return
		}
		// one buffer per size for the life of the reader (the collector is off during a run:
		// a fresh 32 KiB buffer for each of tens of thousands of reads is gigabytes)
		buf := bufs[bs]
		if buf == nil {
			buf = make([]byte, bs)
			bufs[bs] = buf
		}
		n, err := conn.Read(buf)
		if n > 0 {
			if !isClient {
				w.account(rt.user, int64(n), 0)
			}
			rt.checkRead(dr, rd, buf[:n])
			dr.mu.Lock()
			dr.lastProg = time.Since(w.start)
			full := dr.read >= dr.expected
			if full && dr.completeAt == 0 {
				dr.completeAt = dr.lastProg
			}
			dr.mu.Unlock()
			if full {
				signalDone()
			}
		}
		if err != nil {
			if isTimeout(err) && n == 0 {
				select {
				case <-rt.closing:
				default:
					// A timeout is retryable on a net.Conn; count it (C15 looks at these).
					dr.mu.Lock()
					dr.timeouts++
					tmo := dr.timeouts
					dr.mu.Unlock()
					w.probe("read-timeout-retried")
					if tmo < 200 {
						time.Sleep(time.Duration(think) * time.Microsecond)
						continue
					}
				}
			}
			dr.mu.Lock()
			dr.readEnd = errClass(err)
			incomplete := dr.read < dr.expected
			dr.mu.Unlock()
			if incomplete {
				rt.giveUp()
			}
			rt.checkEnd(dr, rd, err, isClient)
			return
		}
		if n == 0 {
			w.violate(rt.streamProp(), "read-zero-nil", "%s Read returned 0, nil for a %d-byte buffer", rt.key, bs)
			return
		}
		time.Sleep(time.Duration(think) * time.Microsecond)
	}
}

// checkRead is the offset-exact stream oracle, evaluated at every Read.
func (rt *sessRT) checkRead(dr *dirRT, rd int, b []byte) {
	w := rt.w
	w.addCheck(1)
	dr.mu.Lock()
	off := dr.read
	dr.read += int64(len(b))
	dr.mu.Unlock()
	if dr.prf.Matches(b, off) {
		if off+int64(len(b)) > rt.maxWritten(rd) {
			w.violate(rt.streamProp(), "read-beyond-written", "%s dir %d read up to %d but only %d were written", rt.key, rd, off+int64(len(b)), rt.maxWritten(rd))
		}
		return
	}
	// Classify the mismatch.
	first := 0
	exp := dr.prf.Bytes(off, len(b))
	for first < len(b) && b[first] == exp[first] {
		first++
	}
	bad := b[first:]
	probe := bad
	if len(probe) > 16 {
		probe = probe[:16]
	}
	class := "altered"
	detail := ""
	if len(probe) >= 8 {
		// same stream, other offset?
		limit := rt.maxWritten(rd) + 65536
		for cand := int64(0); cand+int64(len(probe)) <= limit && cand < 1<<24; cand++ {
			if dr.prf.Matches(probe, cand) {
				if cand < off+int64(first) {
					class = "duplicated-or-reordered"
				} else {
					class = "lost-or-reordered"
				}
				detail = fmt.Sprintf("bytes belong to offset %d of the same stream", cand)
				break
			}
		}
		if class == "altered" {
			w.mu.Lock()
			others := make([]*sessRT, 0, len(w.sessions))
			for _, o := range w.sessions {
				others = append(others, o)
			}
			w.mu.Unlock()
		search:
			for _, o := range others {
				for od := 0; od < 2; od++ {
					if o == rt && od == rd {
						continue
					}
					lim := o.dirs[od].expected
					for cand := int64(0); cand+int64(len(probe)) <= lim; cand++ {
						if o.dirs[od].prf.Matches(probe, cand) {
							class = "cross-session-leak"
							detail = fmt.Sprintf("bytes belong to %s dir %d offset %d", o.key, od, cand)
							break search
						}
					}
				}
			}
		}
	}
	w.violate(rt.streamProp(), "stream-"+class, "%s dir %d: read of %d bytes at offset %d differs from what was written from byte %d on (%s); got % x want % x",
		rt.key, rd, len(b), off, off+int64(first), detail, clip(bad, 12), clip(exp[first:], 12))
}

func clip(b []byte, n int) []byte {
	if len(b) > n {
		return b[:n]
	}
	return b
}

func (rt *sessRT) maxWritten(rd int) int64 {
	dr := rt.dirs[rd]
	dr.mu.Lock()
	defer dr.mu.Unlock()
	// A Write in progress may already have put bytes on the wire: allow the whole script.
	return dr.expected
}

// checkEnd evaluates the end-of-stream oracles when a reader stops.
func (rt *sessRT) checkEnd(dr *dirRT, rd int, err error, readerIsClient bool) {
	w := rt.w
	w.addCheck(1)
	if err != io.EOF {
		return
	}
	// A clean EOF. Who closed?
	closerIsWriter := (rt.spec.Closer == "client") != readerIsClient // the writer of this direction is the closer
	dr.mu.Lock()
	read, wok := dr.read, dr.writtenOK
	wdone := dr.writeDone
	dr.mu.Unlock()
	localClosed := false
	select {
	case <-rt.closing:
		// the session is being closed by the harness
		if !closerIsWriter {
			localClosed = true // we are the closer: EOF on our own closed conn says nothing
		}
	default:
	}
	if localClosed {
		return
	}
	if read < wok {
		// C03: clean end-of-stream after a strict prefix of successfully written data.
		tr := rt.cli.spec.Transport
		cause := w.Tap.closeCause(rt)
		w.violate("C03", "prefix-then-eof:"+tr+":"+cause, "%s dir %d (%s): peer wrote %d bytes successfully (writer done=%v) and closed; reader got clean io.EOF after %d bytes",
			rt.key, rd, tr, wok, wdone, read)
	}
}

// serverAcceptLoop hands accepted proxy connections to their scripted session.
func (w *World) serverAcceptLoop() {
	n := w.Spec.Server.Acceptors
	for i := 1; i < n; i++ {
		go w.acceptLoop1()
	}
	w.acceptLoop1()
}

func (w *World) acceptLoop1() {
	if w.Spec.Server.NoAccept {
		return // an application that has stopped accepting: the server's backlog fills up
	}
	for {
		var conn net.Conn
		var req *model.Request
		var err error
		if w.Spec.Server.RawMux {
			mux := server.VerifMux(w.srv)
			if mux == nil {
				return
			}
			conn, err = mux.Accept()
			if err == nil {
				w.onAcceptRaw(conn)
				continue
			}
		} else {
			conn, req, err = w.srv.Accept()
		}
		if err != nil {
			if !w.srv.IsRunning() {
				return
			}
			// Accept can fail for one connection (bad SOCKS request, timeout); keep serving.
			w.probe("accept-error")
			w.mu.Lock()
			w.acceptErrs++
			if w.Res.Info == nil {
				w.Res.Info = map[string]string{}
			}
			w.Res.Info["lastAcceptErr"] = err.Error()
			w.mu.Unlock()
			if strings.Contains(err.Error(), "closed") || errors.Is(err, io.EOF) {
				return
			}
			time.Sleep(time.Millisecond)
			continue
		}
		w.onAccept(conn, req)
	}
}

func (w *World) onAccept(conn net.Conn, req *model.Request) {
	if ra := conn.RemoteAddr().String(); w.Tap.isAttackerLocked(ra) {
		w.violate(w.Spec.Property, "accept-from-attacker", "Server.Accept returned a proxy connection from attacker address %s with request %v", ra, req)
		conn.Close()
		return
	}
	if req.DstAddr.FQDN == "echo.sim" {
		go w.echoServe(conn, req)
		return
	}
	key, ok := parseSessKey(req.DstAddr.FQDN)
	if ok && w.closeRT != nil {
		w.closeRT.onAccept(conn, req, key)
		return
	}
	w.mu.Lock()
	rt := w.sessions[key]
	w.mu.Unlock()
	if !ok || rt == nil {
		w.Tap.unexpectedAccept(conn, req)
		conn.Close()
		return
	}
	if rt.sconn != nil {
		select {
		case <-rt.closing:
			// One end had already closed this connection. A retransmitted open request that
			// outlives the server's record of the closed session is accepted as a new session
			// (its early data is delivered again). The stream properties speak about
			// connections that both ends keep open, so this is recorded, not judged.
			w.probe("session-resurrected-after-close")
		default:
			w.violate(rt.streamProp(), "session-accepted-twice", "%s was returned by Accept twice while both ends had it open", key)
		}
		conn.Close()
		return
	}
	resp := &model.Response{Reply: 0, BindAddr: model.AddrSpec{IP: net.IPv4zero, Port: 0}}
	acctUser := ""
	if uc, ok := conn.(apicommon.UserContext); ok {
		acctUser = uc.UserName()
	}
	w.account(acctUser, int64(len(req.Raw)), 0) // Accept read the SOCKS request from the session
	w.wg.Add(1)
	go func() {
		if err := resp.WriteToSocks5(conn); err != nil {
			w.probe("socks-response-write-failed")
		} else {
			w.account(acctUser, 0, int64(len(resp.Raw)))
		}
		rt.runServerSide(conn)
	}()
}

// onAcceptRaw: raw mux mode. The connection is matched to the harness session by the
// protocol session id the client's multiplexer drew.
func (w *World) onAcceptRaw(conn net.Conn) {
	id := rawSessionID(conn)
	w.mu.Lock()
	key := w.rawKeys[id]
	rt := w.sessions[key]
	w.mu.Unlock()
	if key != "" && w.closeRT != nil {
		w.closeRT.setEnd(key+"/server", conn)
		return
	}
	if key == "" || rt == nil {
		w.violate(w.Spec.Property, "accept-of-unknown-session", "Mux.Accept returned session %s from %v which no client dialled", id, conn.RemoteAddr())
		conn.Close()
		return
	}
	if rt.sconn != nil {
		select {
		case <-rt.closing:
			// One end had already closed this connection. A retransmitted open request that
			// outlives the server's record of the closed session is accepted as a new session
			// (its early data is delivered again). The stream properties speak about
			// connections that both ends keep open, so this is recorded, not judged.
			w.probe("session-resurrected-after-close")
		default:
			w.violate(rt.streamProp(), "session-accepted-twice", "%s was returned by Accept twice while both ends had it open", key)
		}
		conn.Close()
		return
	}
	w.wg.Add(1)
	go rt.runServerSide(conn)
}

func (w *World) outcomes() []spec.SessionOutcome {
	w.mu.Lock()
	defer w.mu.Unlock()
	var out []spec.SessionOutcome
	for _, rt := range w.sessions {
		o := spec.SessionOutcome{Client: rt.ci, Session: rt.si, DialErr: rt.dialErr, User: rt.user}
		o.C2SWritten, o.C2SRead = rt.dirs[0].writtenOK, rt.dirs[0].read
		o.S2CWritten, o.S2CRead = rt.dirs[1].writtenOK, rt.dirs[1].read
		o.ClientEnd, o.ServerEnd = rt.dirs[1].readEnd, rt.dirs[0].readEnd
		out = append(out, o)
	}
	sortOutcomes(out)
	return out
}

package sim

import (
	"github.com/enfein/mieru/v3/apis/trafficpattern"
	"github.com/enfein/mieru/v3/pkg/appctl/appctlpb"
	"google.golang.org/protobuf/proto"
)

// checkPatternConfig evaluates the configuration half of C16 for one traffic
// pattern: every message Validate accepts yields a Config; explicit fields
// survive into Effective(); implicit ones are stable across constructions and
// pass validation; a pattern survives Encode/Decode unchanged.
func (w *World) checkPatternConfig(name string, p *appctlpb.TrafficPattern) {
	if p == nil {
		p = &appctlpb.TrafficPattern{}
	}
	w.addCheck(1)
	if err := trafficpattern.Validate(p); err != nil {
		w.harness("generated pattern for %s does not validate: %v", name, err)
		return
	}
	c1, err := trafficpattern.NewConfig(proto.Clone(p).(*appctlpb.TrafficPattern))
	if err != nil {
		w.violate("C16", "newconfig-rejects-valid-pattern", "%s: NewConfig failed for a pattern that passes Validate: %v (pattern %v)", name, err, p)
		return
	}
	c2, _ := trafficpattern.NewConfig(proto.Clone(p).(*appctlpb.TrafficPattern))
	e1, e2 := c1.Effective(), c2.Effective()
	if !proto.Equal(e1, e2) {
		w.violate("C16", "effective-not-stable", "%s: two constructions from the same pattern differ: %v vs %v", name, e1, e2)
	}
	if err := trafficpattern.Validate(e1); err != nil {
		w.violate("C16", "effective-fails-validate", "%s: Effective() of a valid pattern fails validation: %v (original %v, effective %v)", name, err, p, e1)
	}
	// explicit fields unchanged
	bad := ""
	if p.Seed != nil && e1.GetSeed() != p.GetSeed() {
		bad = "seed"
	}
	if p.UnlockAll != nil && e1.GetUnlockAll() != p.GetUnlockAll() {
		bad = "unlockAll"
	}
	if f := p.TcpFragment; f != nil {
		if f.Enable != nil && e1.GetTcpFragment().GetEnable() != f.GetEnable() {
			bad = "tcpFragment.enable"
		}
		if f.MaxSleepMs != nil && e1.GetTcpFragment().GetMaxSleepMs() != f.GetMaxSleepMs() {
			bad = "tcpFragment.maxSleepMs"
		}
	}
	if n := p.Nonce; n != nil {
		en := e1.GetNonce()
		if n.Type != nil && en.GetType() != n.GetType() {
			bad = "nonce.type"
		}
		if n.ApplyToAllUDPPacket != nil && en.GetApplyToAllUDPPacket() != n.GetApplyToAllUDPPacket() {
			bad = "nonce.applyToAllUDPPacket"
		}
		if n.MinLen != nil && en.GetMinLen() != n.GetMinLen() {
			bad = "nonce.minLen"
		}
		if n.MaxLen != nil && en.GetMaxLen() != n.GetMaxLen() {
			bad = "nonce.maxLen"
		}
		if len(n.CustomHexStrings) > 0 && len(en.GetCustomHexStrings()) != len(n.CustomHexStrings) {
			bad = "nonce.customHexStrings"
		}
	}
	if pd := p.Padding; pd != nil {
		if pd.MaxMiddlePaddingLen != nil && e1.GetPadding().GetMaxMiddlePaddingLen() != pd.GetMaxMiddlePaddingLen() {
			bad = "padding.maxMiddlePaddingLen"
		}
		if pd.MaxEndPaddingLen != nil && e1.GetPadding().GetMaxEndPaddingLen() != pd.GetMaxEndPaddingLen() {
			bad = "padding.maxEndPaddingLen"
		}
	}
	if le := p.LowEntropy; le != nil {
		if le.Mode != nil && e1.GetLowEntropy().GetMode() != le.GetMode() {
			bad = "lowEntropy.mode"
		}
		if le.MaskRotation != nil && e1.GetLowEntropy().GetMaskRotation() != le.GetMaskRotation() {
			bad = "lowEntropy.maskRotation"
		}
	}
	if bad != "" {
		w.violate("C16", "explicit-field-overridden:"+bad, "%s: explicit %s changed by implicit generation: original %v effective %v", name, bad, p, e1)
	}
	for _, q := range []*appctlpb.TrafficPattern{p, e1} {
		d, err := trafficpattern.Decode(trafficpattern.Encode(q))
		if err != nil || !proto.Equal(d, q) {
			w.violate("C16", "encode-decode-changes-pattern", "%s: Decode(Encode(p)) = %v, %v; want %v", name, d, err, q)
		}
	}
}

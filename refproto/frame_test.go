package refproto

import (
	"bytes"
	"errors"
	"math/rand"
	"testing"
)

func TestFrameLayout(t *testing.T) {
	got, err := FrameUDPAssociate([]byte{0xaa, 0xbb, 0xcc})
	if err != nil {
		t.Fatal(err)
	}
	if want := []byte{0x00, 0x00, 0x03, 0xaa, 0xbb, 0xcc, 0xff}; !bytes.Equal(got, want) {
		t.Fatalf("got %x want %x", got, want)
	}
	got, _ = FrameUDPAssociate(nil)
	if want := []byte{0x00, 0x00, 0x00, 0xff}; !bytes.Equal(got, want) {
		t.Fatalf("empty: got %x", got)
	}
	got, _ = FrameUDPAssociate(make([]byte, 0x1234))
	if got[0] != 0 || got[1] != 0x12 || got[2] != 0x34 || got[len(got)-1] != 0xff || len(got) != 0x1234+4 {
		t.Fatal("big endian length")
	}
	if _, err := FrameUDPAssociate(make([]byte, 65536)); !errors.Is(err, ErrFrame) {
		t.Fatal("65536 bytes accepted")
	}
}

func TestFrameRoundTrip(t *testing.T) {
	r := rand.New(rand.NewSource(9))
	sizes := []int{0, 1, 2, 255, 256, 1500, 65534, 65535, 0, 0, 7}
	var datas [][]byte
	var stream []byte
	for _, n := range sizes {
		d := make([]byte, n)
		r.Read(d)
		f, err := FrameUDPAssociate(d)
		if err != nil {
			t.Fatal(err)
		}
		if len(f) != n+4 {
			t.Fatal("overhead")
		}
		one, err := ParseUDPAssociateFrame(f)
		if err != nil || !bytes.Equal(one, d) {
			t.Fatalf("size %d: %v", n, err)
		}
		datas = append(datas, d)
		stream = append(stream, f...)
	}
	check := func(frames [][]byte) {
		t.Helper()
		if len(frames) != len(datas) {
			t.Fatalf("%d frames, want %d", len(frames), len(datas))
		}
		for i := range frames {
			if frames[i] == nil || !bytes.Equal(frames[i], datas[i]) {
				t.Fatalf("frame %d differs", i)
			}
		}
	}
	var fr FrameReader
	frames, err := fr.Feed(stream)
	if err != nil || fr.Buffered() != 0 {
		t.Fatal(err)
	}
	check(frames)

	// random pieces
	fr = FrameReader{}
	frames = nil
	for rest := stream; len(rest) > 0; {
		n := 1 + r.Intn(3000)
		if n > len(rest) {
			n = len(rest)
		}
		got, err := fr.Feed(rest[:n])
		if err != nil {
			t.Fatal(err)
		}
		frames = append(frames, got...)
		rest = rest[n:]
	}
	check(frames)

	// byte by byte over the small frames
	small := stream[len(stream)-(4+4+4+7):]
	fr = FrameReader{}
	count := 0
	for i := range small {
		got, err := fr.Feed(small[i : i+1])
		if err != nil {
			t.Fatal(err)
		}
		count += len(got)
	}
	if count != 3 || fr.Buffered() != 0 {
		t.Fatal(count)
	}
}

func TestFrameBadMarkers(t *testing.T) {
	good, _ := FrameUDPAssociate([]byte("abc"))
	second, _ := FrameUDPAssociate([]byte("defg"))

	for _, m1 := range []byte{0x01, 0xff, 0x80} {
		bad := append([]byte(nil), good...)
		bad[0] = m1
		var fr FrameReader
		// detected on the very first byte
		if _, err := fr.Feed(bad[:1]); !errors.Is(err, ErrFrame) {
			t.Fatalf("marker 1 %#x: %v", m1, err)
		}
		if _, err := fr.Feed(good); !errors.Is(err, ErrFrame) {
			t.Fatal("error is not sticky")
		}
		if _, err := ParseUDPAssociateFrame(bad); !errors.Is(err, ErrFrame) {
			t.Fatal("ParseUDPAssociateFrame")
		}
	}
	for _, m2 := range []byte{0x00, 0xfe, 0x7f} {
		bad := append([]byte(nil), good...)
		bad[len(bad)-1] = m2
		var fr FrameReader
		if _, err := fr.Feed(bad); !errors.Is(err, ErrFrame) {
			t.Fatalf("marker 2 %#x: %v", m2, err)
		}
	}
	// a good frame before the bad one is still delivered
	bad := append(append([]byte(nil), good...), second...)
	bad[len(bad)-1] = 0x00
	var fr FrameReader
	frames, err := fr.Feed(bad)
	if !errors.Is(err, ErrFrame) || len(frames) != 1 || string(frames[0]) != "abc" {
		t.Fatal(err, frames)
	}
	// wrong length field: the marker is not where it should be
	bad = append([]byte(nil), good...)
	bad[2] = 2
	fr = FrameReader{}
	if _, err := fr.Feed(bad); !errors.Is(err, ErrFrame) {
		t.Fatal(err)
	}
	// exactly-one-frame helper
	if _, err := ParseUDPAssociateFrame(append(append([]byte(nil), good...), second...)); !errors.Is(err, ErrFrame) {
		t.Fatal("two frames accepted as one")
	}
	if _, err := ParseUDPAssociateFrame(good[:len(good)-1]); !errors.Is(err, ErrFrame) {
		t.Fatal("incomplete frame accepted")
	}
	if _, err := ParseUDPAssociateFrame(nil); !errors.Is(err, ErrFrame) {
		t.Fatal("empty input accepted")
	}
}

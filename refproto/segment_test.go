package refproto

import (
	"bytes"
	"errors"
	"math/rand"
	"testing"

	"golang.org/x/crypto/chacha20poly1305"
)

var testCreds = []Cred{
	{User: "alice", Password: "alice-pw"},
	{User: "bob", Password: "bob-pw"},
	{User: "carol", Password: "carol-pw"},
}

const testNow = int64(1700000000)

func testNonce(seed byte) [24]byte {
	var n [24]byte
	for i := range n {
		n[i] = seed + byte(i)*3
	}
	return n
}

func fill(n int, b byte) []byte { return bytes.Repeat([]byte{b}, n) }

// checkGeometry verifies that the spans tile [Start, End) in wire order with
// the lengths the metadata declares and that the padding spans hold the
// expected bytes of wire (wire[0] is at offset base).
func checkGeometry(t *testing.T, s *Segment, wire []byte, base int64, p1, p2 []byte) {
	t.Helper()
	g := s.Geo
	pos := g.Start
	for i, sp := range g.Spans() {
		if sp.Off != pos || sp.End < sp.Off {
			t.Fatalf("span %d = %+v, expected to start at %d (geo %+v)", i, sp, pos, g)
		}
		pos = sp.End
	}
	if pos != g.End || int64(s.WireLen) != g.End-g.Start {
		t.Fatalf("spans end at %d, geo end %d, wirelen %d", pos, g.End, s.WireLen)
	}
	wantNonce := int64(0)
	if s.HasNonce {
		wantNonce = 24
	}
	wantTag := int64(0)
	if s.Meta.PayloadLen > 0 {
		wantTag = 16
	}
	wantP1 := int64(s.Meta.PrefixLen)
	if s.Meta.IsSession() {
		wantP1 = 0
	}
	lens := [7]int64{wantNonce, 32, 16, wantP1, int64(s.Meta.PayloadLen), wantTag, int64(s.Meta.SuffixLen)}
	for i, sp := range g.Spans() {
		if sp.Len() != lens[i] {
			t.Fatalf("span %d has %d bytes, want %d", i, sp.Len(), lens[i])
		}
	}
	if int64(len(p1)) != g.Padding1.Len() || !bytes.Equal(wire[g.Padding1.Off-base:g.Padding1.End-base], p1) || !bytes.Equal(s.Padding1, p1) {
		t.Fatalf("padding 1 bytes / span mismatch")
	}
	if int64(len(p2)) != g.Padding2.Len() || !bytes.Equal(wire[g.Padding2.Off-base:g.Padding2.End-base], p2) || !bytes.Equal(s.Padding2, p2) {
		t.Fatalf("padding 2 bytes / span mismatch")
	}
	if s.HasNonce && !bytes.Equal(wire[g.Nonce.Off-base:g.Nonce.End-base], s.Nonce[:]) {
		t.Fatalf("nonce span does not hold the nonce")
	}
}

type dgCase struct {
	name    string
	m       Meta
	payload []byte
	o       EncodeOpts
}

func datagramCases() []dgCase {
	r := rand.New(rand.NewSource(3))
	rnd := func(n int) []byte { b := make([]byte, n); r.Read(b); return b }
	base := Meta{TimestampMin: TimestampMinOf(testNow), SessionID: 0xcafe, Seq: 7, UnAckSeq: 3, Window: 128, Fragment: 2, Status: 1}
	mk := func(typ uint8) Meta { m := base; m.Type = typ; return m }
	le := func(typ, mode uint8, mask uint32, rot uint8) Meta {
		m := mk(typ)
		m.Byte1, m.LEMask, m.LERotation = mode, mask, rot
		return m
	}
	return []dgCase{
		{"open bare", mk(TypeOpenReq), nil, EncodeOpts{}},
		{"open payload", mk(TypeOpenReq), rnd(300), EncodeOpts{Padding2: fill(33, 'x')}},
		{"open max", mk(TypeOpenResp), rnd(1024), EncodeOpts{}},
		{"close suffix", mk(TypeCloseReq), nil, EncodeOpts{Padding2: fill(255, 'y')}},
		{"close resp", mk(TypeCloseResp), nil, EncodeOpts{}},
		{"data bare", mk(TypeDataC2S), rnd(1), EncodeOpts{}},
		{"data padded", mk(TypeDataS2C), rnd(1200), EncodeOpts{Padding1: fill(255, 'a'), Padding2: fill(255, 'b')}},
		{"data prefix only", mk(TypeDataC2S), rnd(10), EncodeOpts{Padding1: fill(5, 'a')}},
		{"data no payload", mk(TypeDataC2S), nil, EncodeOpts{Padding1: fill(5, 'a'), Padding2: fill(6, 'b')}},
		{"ack", mk(TypeAckC2S), nil, EncodeOpts{Padding2: fill(9, 'z')}},
		{"ack s2c", mk(TypeAckS2C), nil, EncodeOpts{}},
		{"le m1", le(TypeDataC2SLE, 1, 0x0f0f0f0f, 0), rnd(1001), EncodeOpts{Padding1: fill(3, 'a'), Padding2: fill(4, 'b'), LEPadBit: 1}},
		{"le m2", le(TypeDataS2CLE, 2, 0xfffff000, 5), rnd(777), EncodeOpts{}},
		{"le m3", le(TypeDataC2SLE, 3, 0x00ffffff, 0xd0), rnd(6), EncodeOpts{Padding2: fill(1, 'b')}},
		{"le m4", le(TypeDataS2CLE, 4, 0xfffffff0, 15), rnd(1400), EncodeOpts{LEPadBit: 1}},
		{"le no payload", le(TypeDataS2CLE, 4, 0xfffffff0, 15), nil, EncodeOpts{Padding1: fill(8, 'q')}},
		{"data 32768", mk(TypeDataC2S), rnd(32768), EncodeOpts{}},
		{"le m1 32764", le(TypeDataC2SLE, 1, 0xaaaa5555, 0x10), rnd(32764), EncodeOpts{}},
		{"le m4 32768", le(TypeDataC2SLE, 4, 0x7fffffc7, 3), rnd(32768), EncodeOpts{LEPadBit: 1}},
	}
}

func TestDatagramRoundTrip(t *testing.T) {
	for ci, c := range datagramCases() {
		cred := testCreds[ci%len(testCreds)]
		// the sender's clock may differ so that it lands in a neighbour slot
		for _, skew := range []int64{0, -120, 120} {
			key := KeyAt(cred, testNow+skew)
			nonce := testNonce(byte(ci))
			wire, err := EncodeDatagram(key, cred.User, nonce, c.m, c.payload, c.o)
			if err != nil {
				t.Fatalf("%s: %v", c.name, err)
			}
			seg, err := DecodeDatagram(wire, testCreds, testNow)
			if err != nil {
				t.Fatalf("%s skew %d: %v", c.name, skew, err)
			}
			if seg.User != cred.User || seg.Slot != SlotOf(testNow+skew) || !seg.HasNonce || !seg.HintOK {
				t.Fatalf("%s: user %q slot %d hint %v", c.name, seg.User, seg.Slot, seg.HintOK)
			}
			wantNonce := nonce
			ApplyUserHint(cred.User, wantNonce[:])
			if seg.Nonce != wantNonce || !bytes.Equal(wire[:24], wantNonce[:]) {
				t.Fatalf("%s: nonce", c.name)
			}
			if len(c.payload) == 0 {
				if seg.Payload != nil || seg.AEADOps != 1 {
					t.Fatalf("%s: payload %v", c.name, seg.Payload)
				}
			} else if !bytes.Equal(seg.Payload, c.payload) || seg.AEADOps != 2 {
				t.Fatalf("%s: payload differs", c.name)
			}
			if seg.WireLen != len(wire) || seg.Geo.Start != 0 || seg.Geo.End != int64(len(wire)) {
				t.Fatalf("%s: wirelen %d of %d", c.name, seg.WireLen, len(wire))
			}
			checkGeometry(t, seg, wire, 0, c.o.Padding1, c.o.Padding2)
			m := seg.Meta
			if m.Type != c.m.Type || m.SessionID != c.m.SessionID || m.Seq != c.m.Seq || m.TimestampMin != c.m.TimestampMin || m.UnusedNonZero {
				t.Fatalf("%s: meta %+v", c.name, m)
			}
			if m.IsLowEntropy() {
				if int(m.ExtractedLen) != len(c.payload) || int(m.PayloadLen) != LEEncodedLen(len(c.payload), m.Byte1) {
					t.Fatalf("%s: le lengths %d %d", c.name, m.ExtractedLen, m.PayloadLen)
				}
				if len(c.payload) > 0 && seg.LEPadBit != c.o.LEPadBit {
					t.Fatalf("%s: pad bit", c.name)
				}
			} else if int(m.PayloadLen) != len(c.payload) {
				t.Fatalf("%s: payload len %d", c.name, m.PayloadLen)
			}
			if m.IsSession() {
				if m.Status != c.m.Status {
					t.Fatalf("%s: status", c.name)
				}
			} else if m.UnAckSeq != c.m.UnAckSeq || m.Window != c.m.Window || m.Fragment != c.m.Fragment {
				t.Fatalf("%s: data fields", c.name)
			}

			seg2, err := DecodeDatagramWithKey(wire, key)
			if err != nil || !bytes.Equal(seg2.Payload, c.payload) || seg2.Geo != seg.Geo || seg2.Meta != seg.Meta {
				t.Fatalf("%s: DecodeDatagramWithKey: %v", c.name, err)
			}
			if skew != 0 {
				continue
			}
			// trailing garbage and truncation
			if _, err := DecodeDatagram(append(append([]byte(nil), wire...), 0), testCreds, testNow); !errors.Is(err, ErrTrailing) {
				t.Fatalf("%s: trailing byte: %v", c.name, err)
			}
			if len(wire) > 72 {
				if _, err := DecodeDatagram(wire[:len(wire)-1], testCreds, testNow); !errors.Is(err, ErrTruncated) {
					t.Fatalf("%s: truncated: %v", c.name, err)
				}
			}
			if _, err := DecodeDatagram(wire[:71], testCreds, testNow); !errors.Is(err, ErrShort) {
				t.Fatalf("%s: 71 bytes: %v", c.name, err)
			}
		}
	}
}

// The low entropy wire body must be the AEAD ciphertext expanded, followed by
// the unchanged tag; the plain data body must be the ciphertext itself; the
// payload uses the SAME nonce as the metadata on UDP.
func TestDatagramWireContentIndependent(t *testing.T) {
	key := KeyAt(testCreds[0], testNow)
	nonce := testNonce(9)
	payload := []byte("the quick brown fox jumps over the lazy dog")
	aead, _ := chacha20poly1305.NewX(key[:])

	m := Meta{Type: TypeDataC2S, SessionID: 1, TimestampMin: 5}
	wire, err := EncodeDatagram(key, "", nonce, m, payload, EncodeOpts{Padding1: []byte("pp"), Padding2: []byte("sss")})
	if err != nil {
		t.Fatal(err)
	}
	wantMeta := Meta{Type: TypeDataC2S, SessionID: 1, TimestampMin: 5, PrefixLen: 2, SuffixLen: 3, PayloadLen: uint16(len(payload))}
	raw := wantMeta.Marshal()
	want := append([]byte(nil), nonce[:]...)
	want = aead.Seal(want, nonce[:], raw[:], nil)
	want = append(want, "pp"...)
	want = aead.Seal(want, nonce[:], payload, nil)
	want = append(want, "sss"...)
	if !bytes.Equal(wire, want) {
		t.Fatalf("data datagram bytes differ\n got %x\nwant %x", wire, want)
	}

	m = Meta{Type: TypeDataS2CLE, Byte1: 3, LEMask: 0x3f3f3f3f, LERotation: 0x70, SessionID: 1}
	wire, err = EncodeDatagram(key, "", nonce, m, payload, EncodeOpts{Padding1: []byte("pp"), Padding2: []byte("sss"), LEPadBit: 1})
	if err != nil {
		t.Fatal(err)
	}
	ct := aead.Seal(nil, nonce[:], payload, nil)
	enc, err := LEEncode(ct[:len(payload)], 3, 0x3f3f3f3f, 0x70, 1)
	if err != nil {
		t.Fatal(err)
	}
	wantMeta = m
	wantMeta.PrefixLen, wantMeta.SuffixLen, wantMeta.PayloadLen, wantMeta.ExtractedLen = 2, 3, uint16(len(enc)), uint16(len(payload))
	raw = wantMeta.Marshal()
	want = append([]byte(nil), nonce[:]...)
	want = aead.Seal(want, nonce[:], raw[:], nil)
	want = append(want, "pp"...)
	want = append(want, enc...)
	want = append(want, ct[len(payload):]...)
	want = append(want, "sss"...)
	if !bytes.Equal(wire, want) {
		t.Fatalf("low entropy datagram bytes differ")
	}
	if len(enc) != (len(payload)+5)/6*8 {
		t.Fatal("encoded length")
	}

	// session: [nonce] encMeta encPayload padding2
	m = Meta{Type: TypeOpenReq, SessionID: 1, Status: 9}
	wire, err = EncodeDatagram(key, "", nonce, m, payload, EncodeOpts{Padding2: []byte("sss")})
	if err != nil {
		t.Fatal(err)
	}
	wantMeta = Meta{Type: TypeOpenReq, SessionID: 1, Status: 9, PayloadLen: uint16(len(payload)), SuffixLen: 3}
	raw = wantMeta.Marshal()
	want = append([]byte(nil), nonce[:]...)
	want = aead.Seal(want, nonce[:], raw[:], nil)
	want = aead.Seal(want, nonce[:], payload, nil)
	want = append(want, "sss"...)
	if !bytes.Equal(wire, want) {
		t.Fatalf("session datagram bytes differ")
	}
}

func TestDatagramTamper(t *testing.T) {
	cred := testCreds[1]
	key := KeyAt(cred, testNow)
	cases := datagramCases()
	for _, ci := range []int{1, 6, 11, 13} {
		c := cases[ci]
		wire, err := EncodeDatagram(key, cred.User, testNonce(1), c.m, c.payload, c.o)
		if err != nil {
			t.Fatal(err)
		}
		ref, err := DecodeDatagram(wire, testCreds, testNow)
		if err != nil {
			t.Fatal(err)
		}
		g := ref.Geo
		for i := range wire {
			for _, flip := range []byte{0x01, 0x80} {
				bad := append([]byte(nil), wire...)
				bad[i] ^= flip
				seg, err := DecodeDatagram(bad, testCreds, testNow)
				off := int64(i)
				inPadding := off >= g.Padding1.Off && off < g.Padding1.End || off >= g.Padding2.Off && off < g.Padding2.End
				if inPadding {
					// padding is not authenticated
					if err != nil || !bytes.Equal(seg.Payload, c.payload) {
						t.Fatalf("%s: flip in padding at %d rejected: %v", c.name, i, err)
					}
					continue
				}
				if err == nil {
					t.Fatalf("%s: flip %#x at byte %d accepted", c.name, flip, i)
				}
				if seg != nil {
					t.Fatalf("%s: segment returned with an error", c.name)
				}
				var de *DecodeError
				if !errors.As(err, &de) {
					t.Fatalf("%s: error type %T", c.name, err)
				}
				switch {
				case off < g.MetaTag.End:
					if !errors.Is(err, ErrAuthMeta) {
						t.Fatalf("%s: byte %d: %v", c.name, i, err)
					}
				case off >= g.PayloadTag.Off && off < g.PayloadTag.End:
					if !errors.Is(err, ErrAuthPayload) {
						t.Fatalf("%s: byte %d: %v", c.name, i, err)
					}
				default: // body
					if !errors.Is(err, ErrAuthPayload) && !errors.Is(err, ErrLowEntropy) {
						t.Fatalf("%s: byte %d: %v", c.name, i, err)
					}
					if de.Meta == nil {
						t.Fatalf("%s: no meta in the error", c.name)
					}
				}
			}
		}
	}
}

func TestDatagramAuthFailures(t *testing.T) {
	cred := testCreds[0]
	m := Meta{Type: TypeDataC2S, SessionID: 1}
	wire, _ := EncodeDatagram(KeyAt(cred, testNow), cred.User, testNonce(1), m, []byte("hi"), EncodeOpts{})
	// unknown user
	if _, err := DecodeDatagram(wire, testCreds[1:], testNow); !errors.Is(err, ErrAuthMeta) {
		t.Fatal(err)
	}
	if _, err := DecodeDatagram(wire, nil, testNow); !errors.Is(err, ErrNoCredential) {
		t.Fatal(err)
	}
	// clock too far: slot(testNow)=1700000040; receiver at +240 tries +120..+360 around its own slot
	for _, dt := range []int64{240, -240, 3600} {
		if _, err := DecodeDatagram(wire, testCreds, testNow+dt); !errors.Is(err, ErrAuthMeta) {
			t.Fatalf("dt %d: %v", dt, err)
		}
	}
	for _, dt := range []int64{120, -120, 100, -139} {
		if _, err := DecodeDatagram(wire, testCreds, testNow+dt); err != nil {
			t.Fatalf("dt %d: %v", dt, err)
		}
	}
	// wrong password
	if _, err := DecodeDatagram(wire, []Cred{{User: "alice", Password: "nope"}}, testNow); !errors.Is(err, ErrAuthMeta) {
		t.Fatal(err)
	}
	// A sender without hint is still found (the hint is only an accelerator).
	wire, _ = EncodeDatagram(KeyAt(cred, testNow), "", testNonce(1), m, []byte("hi"), EncodeOpts{})
	seg, err := DecodeDatagram(wire, testCreds, testNow)
	if err != nil || seg.User != "alice" || seg.HintOK {
		t.Fatal(err, seg)
	}
}

// Hostile encodings: authenticated metadata that violates the format.
func TestDatagramStrictness(t *testing.T) {
	cred := testCreds[2]
	key := KeyAt(cred, testNow)
	enc := func(m Meta, payload []byte, o EncodeOpts) []byte {
		t.Helper()
		w, err := EncodeDatagram(key, cred.User, testNonce(4), m, payload, o)
		if err != nil {
			t.Fatal(err)
		}
		return w
	}
	expect := func(name string, wire []byte, want error) *DecodeError {
		t.Helper()
		seg, err := DecodeDatagram(wire, testCreds, testNow)
		if !errors.Is(err, want) || seg != nil {
			t.Fatalf("%s: err = %v, want %v", name, err, want)
		}
		var de *DecodeError
		errors.As(err, &de)
		return de
	}

	// unknown type
	for _, typ := range []uint8{0, 1, 12, 255} {
		de := expect("unknown type", enc(Meta{Type: typ, SessionID: 3}, nil, EncodeOpts{}), ErrUnknownType)
		if de.Meta == nil || de.Meta.Type != typ || de.Meta.SessionID != 3 {
			t.Fatalf("unknown type %d: meta not reported", typ)
		}
	}
	// session payload > 1024, genuinely present
	expect("session 1025", enc(Meta{Type: TypeOpenReq}, make([]byte, 1025), EncodeOpts{}), ErrMetaInvalid)
	if _, err := DecodeDatagram(enc(Meta{Type: TypeOpenReq}, make([]byte, 1024), EncodeOpts{}), testCreds, testNow); err != nil {
		t.Fatal(err)
	}
	// lengths lie
	expect("declared longer", enc(Meta{Type: TypeDataC2S, PayloadLen: 11}, make([]byte, 10), EncodeOpts{OverrideLens: true}), ErrTruncated)
	expect("declared shorter", enc(Meta{Type: TypeDataC2S, PayloadLen: 9}, make([]byte, 10), EncodeOpts{OverrideLens: true}), ErrTrailing)
	expect("suffix lie", enc(Meta{Type: TypeAckC2S, SuffixLen: 3}, nil, EncodeOpts{OverrideLens: true, Padding2: fill(4, 1)}), ErrTrailing)
	expect("prefix lie", enc(Meta{Type: TypeAckC2S, PrefixLen: 5}, nil, EncodeOpts{OverrideLens: true, Padding1: fill(4, 1)}), ErrTruncated)
	// right total length, wrong split: payload authentication fails
	expect("split lie", enc(Meta{Type: TypeDataC2S, PrefixLen: 1, PayloadLen: 9}, make([]byte, 10), EncodeOpts{OverrideLens: true}), ErrAuthPayload)
	// a bare payload tag (payload length 0) is trailing garbage
	expect("sealed empty", enc(Meta{Type: TypeDataC2S}, nil, EncodeOpts{SealEmptyPayload: true}), ErrTrailing)

	// low entropy
	le := Meta{Type: TypeDataC2SLE, Byte1: 1, LEMask: 0x0f0f0f0f, LERotation: 2}
	payload := []byte("0123456789")
	hook := func(f func(m *Meta)) EncodeOpts { return EncodeOpts{MetaHook: f} }
	expect("le mode 0", enc(le, payload, hook(func(m *Meta) { m.Byte1 = 0 })), ErrMetaInvalid)
	expect("le mode 5", enc(le, payload, hook(func(m *Meta) { m.Byte1 = 5 })), ErrMetaInvalid)
	expect("le weight", enc(le, payload, hook(func(m *Meta) { m.LEMask = 0x0f0f0f0e })), ErrMetaInvalid)
	expect("le rotation", enc(le, payload, hook(func(m *Meta) { m.LERotation = 0x11 })), ErrMetaInvalid)
	expect("le extracted", enc(le, payload, hook(func(m *Meta) { m.ExtractedLen = 13 })), ErrMetaInvalid)
	expect("le extracted 0", enc(le, payload, hook(func(m *Meta) { m.ExtractedLen = 0 })), ErrMetaInvalid)
	expect("le payload len", enc(le, payload, hook(func(m *Meta) { m.PayloadLen = 20 })), ErrMetaInvalid)
	expect("le bad params without payload", enc(le, nil, hook(func(m *Meta) { m.LEMask = 1 })), ErrMetaInvalid)
	// consistent chunk count but wrong extracted length: the unused selected
	// positions hold ciphertext, or authentication fails
	seg, err := DecodeDatagram(enc(le, payload, hook(func(m *Meta) { m.ExtractedLen = 9 })), testCreds, testNow)
	if err == nil || seg != nil {
		t.Fatal("extracted length 9 for 10 accepted")
	}
	// other valid mask / rotation than the one used: garbage
	seg, err = DecodeDatagram(enc(le, payload, hook(func(m *Meta) { m.LERotation = 3 })), testCreds, testNow)
	if err == nil || seg != nil {
		t.Fatal("wrong rotation accepted")
	}
	// mixed padding
	for pad := uint8(0); pad <= 1; pad++ {
		o := EncodeOpts{LEPadBit: pad, BodyHook: func(b []byte) []byte {
			b = append([]byte(nil), b...)
			b[0] ^= 0x80 // chunk 0 uses 0x0f0f...: its top bit is unselected
			return b
		}}
		expect("mixed padding", enc(le, payload, o), ErrLowEntropy)
	}
	// non-zero unused bytes are exposed, not rejected
	for _, m := range []Meta{{Type: TypeOpenReq}, {Type: TypeDataS2C}} {
		seg, err := DecodeDatagram(enc(m, payload, EncodeOpts{RawMeta: true, MetaHook: func(m *Meta) {
			m.Raw = m.Marshal()
			m.Raw[31] = 1
		}}), testCreds, testNow)
		if err != nil || !seg.Meta.UnusedNonZero || !bytes.Equal(seg.Payload, payload) {
			t.Fatalf("unused byte: %v", err)
		}
		seg, err = DecodeDatagram(enc(m, payload, EncodeOpts{MetaHook: func(m *Meta) { m.Byte1 = 7 }}), testCreds, testNow)
		if err != nil || !seg.Meta.UnusedNonZero || seg.Meta.Byte1 != 7 {
			t.Fatalf("byte 1: %v", err)
		}
	}
	// session ID 0 is reserved but is a matter for the caller
	seg, err = DecodeDatagram(enc(Meta{Type: TypeDataC2S, SessionID: 0}, payload, EncodeOpts{}), testCreds, testNow)
	if err != nil || seg.Meta.SessionID != 0 {
		t.Fatal(err)
	}
}

func TestEncodeErrors(t *testing.T) {
	key := KeyAt(testCreds[0], testNow)
	try := func(m Meta, payload []byte, o EncodeOpts) error {
		_, err := EncodeDatagram(key, "", testNonce(0), m, payload, o)
		return err
	}
	if err := try(Meta{Type: TypeDataC2S}, nil, EncodeOpts{Padding1: make([]byte, 256)}); !errors.Is(err, ErrEncode) {
		t.Error("256 byte padding 1", err)
	}
	if err := try(Meta{Type: TypeDataC2S}, nil, EncodeOpts{Padding2: make([]byte, 256)}); !errors.Is(err, ErrEncode) {
		t.Error("256 byte padding 2", err)
	}
	if err := try(Meta{Type: TypeOpenReq}, nil, EncodeOpts{Padding1: make([]byte, 1)}); !errors.Is(err, ErrEncode) {
		t.Error("session padding 1", err)
	}
	if err := try(Meta{Type: TypeDataC2S}, make([]byte, 65536), EncodeOpts{}); !errors.Is(err, ErrEncode) {
		t.Error("65536 byte payload", err)
	}
	if err := try(Meta{Type: TypeDataC2SLE, Byte1: 1, LEMask: 0xffff}, make([]byte, 32768), EncodeOpts{}); !errors.Is(err, ErrEncode) {
		t.Error("32768 bytes in mode 1", err)
	}
	if err := try(Meta{Type: TypeDataC2SLE, Byte1: 1, LEMask: 0xfffff}, []byte("x"), EncodeOpts{}); !errors.Is(err, ErrEncode) || !errors.Is(err, ErrLowEntropy) {
		t.Error("bad mask", err)
	}
	if err := try(Meta{Type: TypeDataC2SLE, Byte1: 0}, nil, EncodeOpts{}); !errors.Is(err, ErrEncode) {
		t.Error("mode 0 without payload", err)
	}
	// with OverrideLens the limits are the caller's business
	if err := try(Meta{Type: TypeDataC2S}, nil, EncodeOpts{OverrideLens: true, Padding1: make([]byte, 300)}); err != nil {
		t.Error(err)
	}
}

package refproto

import (
	"bytes"
	"errors"
	"math/rand"
	"testing"

	"golang.org/x/crypto/chacha20poly1305"
)

type streamItem struct {
	m       Meta
	payload []byte
	o       EncodeOpts
}

// genStream produces n segments of mixed kinds.
func genStream(r *rand.Rand, n int, c2s bool) []streamItem {
	items := make([]streamItem, 0, n)
	for i := 0; i < n; i++ {
		m := Meta{TimestampMin: TimestampMinOf(testNow), SessionID: 0x1000 + uint32(i%3), Seq: uint32(i), UnAckSeq: uint32(i / 2), Window: uint16(200 + i), Fragment: uint8(i % 5)}
		var payload []byte
		var o EncodeOpts
		d := uint8(0)
		if !c2s {
			d = 1
		}
		switch k := r.Intn(6); k {
		case 0: // session with or without payload
			m.Type = []uint8{TypeOpenReq, TypeCloseReq}[r.Intn(2)] + d
			m.Status = uint8(r.Intn(4))
			if r.Intn(2) == 0 {
				payload = make([]byte, 1+r.Intn(1024))
			}
			o.Padding2 = fill(r.Intn(40), 's')
		case 1: // ack, no payload
			m.Type = TypeAckC2S + d
			o.Padding2 = fill(r.Intn(256), 's')
		case 2, 3: // data
			m.Type = TypeDataC2S + d
			payload = make([]byte, 1+r.Intn(3000))
			o.Padding1 = fill(r.Intn(256), 'p')
			o.Padding2 = fill(r.Intn(256), 's')
		case 4: // low entropy data
			m.Type = TypeDataC2SLE + d
			m.Byte1 = uint8(1 + r.Intn(4))
			w, _ := LEMaskWeight(m.Byte1)
			m.LEMask = randMask(r, w)
			m.LERotation = allRotations()[r.Intn(31)]
			payload = make([]byte, 1+r.Intn(3000))
			o.Padding1 = fill(r.Intn(20), 'p')
			o.Padding2 = fill(r.Intn(20), 's')
			o.LEPadBit = uint8(r.Intn(2))
		case 5: // data without payload but with padding
			m.Type = TypeDataC2S + d
			o.Padding1 = fill(r.Intn(10), 'p')
			o.Padding2 = fill(r.Intn(10), 's')
		}
		r.Read(payload)
		items = append(items, streamItem{m, payload, o})
	}
	return items
}

func encodeStream(t *testing.T, e *StreamEncoder, items []streamItem) (wire []byte, bounds []int) {
	t.Helper()
	for _, it := range items {
		b, err := e.Encode(it.m, it.payload, it.o)
		if err != nil {
			t.Fatal(err)
		}
		wire = append(wire, b...)
		bounds = append(bounds, len(wire))
	}
	return wire, bounds
}

func checkStreamSegments(t *testing.T, segs []*Segment, items []streamItem, wire []byte, bounds []int, user string, startNonce [24]byte) {
	t.Helper()
	if len(segs) != len(items) {
		t.Fatalf("decoded %d segments, want %d", len(segs), len(items))
	}
	nonce := startNonce
	pos := int64(0)
	for i, s := range segs {
		it := items[i]
		if s.Geo.Start != pos || s.Geo.End != int64(bounds[i]) {
			t.Fatalf("segment %d spans [%d,%d), want [%d,%d)", i, s.Geo.Start, s.Geo.End, pos, bounds[i])
		}
		pos = s.Geo.End
		if s.HasNonce != (i == 0) {
			t.Fatalf("segment %d: HasNonce = %v", i, s.HasNonce)
		}
		checkGeometry(t, s, wire, 0, it.o.Padding1, it.o.Padding2)
		if s.Nonce != nonce {
			t.Fatalf("segment %d: nonce %x want %x", i, s.Nonce, nonce)
		}
		IncrementNonce(&nonce)
		if len(it.payload) > 0 {
			IncrementNonce(&nonce)
			if !bytes.Equal(s.Payload, it.payload) || s.AEADOps != 2 {
				t.Fatalf("segment %d: payload differs", i)
			}
		} else if s.Payload != nil || s.AEADOps != 1 {
			t.Fatalf("segment %d: unexpected payload", i)
		}
		if s.Meta.Type != it.m.Type || s.Meta.Seq != it.m.Seq || s.Meta.SessionID != it.m.SessionID {
			t.Fatalf("segment %d: meta %+v", i, s.Meta)
		}
		if s.User != user {
			t.Fatalf("segment %d: user %q", i, s.User)
		}
		if s.Meta.IsLowEntropy() && len(it.payload) > 0 && s.LEPadBit != it.o.LEPadBit {
			t.Fatalf("segment %d: pad bit", i)
		}
	}
}

// 1000 AEAD operations starting from a nonce that ends in ff ff ff, fed in
// one piece, one byte at a time, and in random pieces.
func TestStreamNonceCarry(t *testing.T) {
	key := KeyAt(testCreds[0], testNow)
	var nonce [24]byte
	for i := range nonce {
		nonce[i] = byte(0x10 + i)
	}
	nonce[21], nonce[22], nonce[23] = 0xff, 0xff, 0xff
	// no user: the hint would overwrite the tail of the nonce
	e := NewStreamEncoder(key, "", nonce)
	r := rand.New(rand.NewSource(4))
	var items []streamItem
	for e2 := uint64(0); e2 < 1000; {
		it := genStream(r, 1, false)[0]
		it.m.Seq = uint32(len(items))
		items = append(items, it)
		e2++
		if len(it.payload) > 0 {
			e2++
		}
	}
	wire, bounds := encodeStream(t, e, items)
	if e.Ops() < 1000 {
		t.Fatalf("only %d operations", e.Ops())
	}
	if !bytes.Equal(wire[:24], nonce[:]) {
		t.Fatal("the stream does not start with the nonce")
	}
	// the second operation must already have carried into byte 20
	want := nonce
	IncrementNonce(&want)
	if want[20] != 0x10+20+1 || want[21] != 0 || want[22] != 0 || want[23] != 0 {
		t.Fatalf("test bug: %x", want)
	}
	wantEnd := nonce
	for i := uint64(0); i < e.Ops(); i++ {
		IncrementNonce(&wantEnd)
	}
	if e.NextNonce() != wantEnd {
		t.Fatal("encoder nonce after the run")
	}

	// whole
	d := NewStreamDecoderWithKey(key, "", 0)
	segs, err := d.Feed(wire, testNow)
	if err != nil {
		t.Fatal(err)
	}
	checkStreamSegments(t, segs, items, wire, bounds, "", nonce)
	if d.Buffered() != 0 || d.Offset() != int64(len(wire)) || d.Ops() != e.Ops() || d.PendingNeed() != 48 {
		t.Fatalf("after whole feed: buffered %d offset %d ops %d need %d", d.Buffered(), d.Offset(), d.Ops(), d.PendingNeed())
	}

	// one byte at a time, checking the bookkeeping at every step
	d = NewStreamDecoderWithKey(key, "", 0)
	if d.PendingNeed() != 72 {
		t.Fatal("initial need", d.PendingNeed())
	}
	segs = nil
	next := 0
	for i := range wire {
		got, err := d.Feed(wire[i:i+1], testNow)
		if err != nil {
			t.Fatalf("byte %d: %v", i, err)
		}
		if i+1 == bounds[next] {
			if len(got) != 1 {
				t.Fatalf("byte %d completes segment %d but %d segments returned", i, next, len(got))
			}
			next++
		} else if len(got) != 0 {
			t.Fatalf("byte %d: unexpected segment", i)
		}
		segs = append(segs, got...)
		start := 0
		if next > 0 {
			start = bounds[next-1]
		}
		if d.Offset() != int64(start) || d.Buffered() != i+1-start {
			t.Fatalf("byte %d: offset %d buffered %d, segment starts at %d", i, d.Offset(), d.Buffered(), start)
		}
		if d.PendingNeed() < 1 {
			t.Fatalf("byte %d: need %d", i, d.PendingNeed())
		}
		if next < len(bounds) && d.Buffered()+d.PendingNeed() > bounds[next]-start {
			t.Fatalf("byte %d: need %d overshoots the segment", i, d.PendingNeed())
		}
		if p := d.Partial(); p != nil && d.Buffered()+d.PendingNeed() != bounds[next]-start {
			t.Fatalf("byte %d: with metadata known, need must be exact", i)
		}
	}
	checkStreamSegments(t, segs, items, wire, bounds, "", nonce)

	// random pieces
	d = NewStreamDecoderWithKey(key, "", 0)
	segs = nil
	for rest := wire; len(rest) > 0; {
		n := 1 + r.Intn(5000)
		if n > len(rest) {
			n = len(rest)
		}
		got, err := d.Feed(rest[:n], testNow)
		if err != nil {
			t.Fatal(err)
		}
		segs = append(segs, got...)
		rest = rest[n:]
	}
	checkStreamSegments(t, segs, items, wire, bounds, "", nonce)
}

func TestStreamNonceWrapAround(t *testing.T) {
	key := KeyAt(testCreds[0], testNow)
	var nonce [24]byte
	for i := range nonce {
		nonce[i] = 0xff
	}
	nonce[23] = 0xfe
	e := NewStreamEncoder(key, "", nonce)
	items := genStream(rand.New(rand.NewSource(5)), 20, true)
	wire, bounds := encodeStream(t, e, items)
	d := NewStreamDecoderWithKey(key, "", 0)
	segs, err := d.Feed(wire, 0)
	if err != nil {
		t.Fatal(err)
	}
	checkStreamSegments(t, segs, items, wire, bounds, "", nonce)
}

// The exact bytes of a TCP direction, built independently with the AEAD.
func TestStreamWireContentIndependent(t *testing.T) {
	key := KeyAt(testCreds[1], testNow)
	aead, _ := chacha20poly1305.NewX(key[:])
	n0 := testNonce(7)
	n0[23] = 0xff
	ApplyUserHint("bob", n0[:]) // what the encoder will do
	e := NewStreamEncoder(key, "bob", testNonceWithLast(7, 0xff))
	n1, n2, n3, n4 := n0, n0, n0, n0
	IncrementNonce(&n1)
	n2 = n1
	IncrementNonce(&n2)
	n3 = n2
	IncrementNonce(&n3)
	n4 = n3
	IncrementNonce(&n4)

	var got, want []byte
	// 1: open session with payload: nonce, meta(n0), payload(n1), padding 2
	b, err := e.Encode(Meta{Type: TypeOpenReq, SessionID: 9}, []byte("hello"), EncodeOpts{Padding2: []byte("zz")})
	if err != nil {
		t.Fatal(err)
	}
	got = append(got, b...)
	m1 := Meta{Type: TypeOpenReq, SessionID: 9, PayloadLen: 5, SuffixLen: 2}
	raw := m1.Marshal()
	want = append(want, n0[:]...)
	want = aead.Seal(want, n0[:], raw[:], nil)
	want = aead.Seal(want, n1[:], []byte("hello"), nil)
	want = append(want, "zz"...)
	// 2: ack without payload: meta(n2) only, one operation
	b, _ = e.Encode(Meta{Type: TypeAckC2S, SessionID: 9, UnAckSeq: 4}, nil, EncodeOpts{Padding2: []byte("y")})
	got = append(got, b...)
	m2 := Meta{Type: TypeAckC2S, SessionID: 9, UnAckSeq: 4, SuffixLen: 1}
	raw = m2.Marshal()
	want = aead.Seal(want, n2[:], raw[:], nil)
	want = append(want, "y"...)
	// 3: data: meta(n3), padding 1, payload(n4), padding 2
	b, _ = e.Encode(Meta{Type: TypeDataC2S, SessionID: 9, Seq: 1}, []byte("world!"), EncodeOpts{Padding1: []byte("abc"), Padding2: []byte("de")})
	got = append(got, b...)
	m3 := Meta{Type: TypeDataC2S, SessionID: 9, Seq: 1, PrefixLen: 3, PayloadLen: 6, SuffixLen: 2}
	raw = m3.Marshal()
	want = aead.Seal(want, n3[:], raw[:], nil)
	want = append(want, "abc"...)
	want = aead.Seal(want, n4[:], []byte("world!"), nil)
	want = append(want, "de"...)
	if !bytes.Equal(got, want) {
		t.Fatalf("stream bytes differ\n got %x\nwant %x", got, want)
	}
	if e.Ops() != 5 {
		t.Fatal("ops", e.Ops())
	}

	// and the decoder agrees, finding bob by trial
	d := NewStreamDecoder(testCreds)
	segs, err := d.Feed(want, testNow)
	if err != nil || len(segs) != 3 {
		t.Fatal(err, len(segs))
	}
	if segs[0].Nonce != n0 || segs[1].Nonce != n2 || segs[2].Nonce != n3 || !segs[0].HintOK || segs[1].HintOK {
		t.Fatal("nonces")
	}
	if string(segs[0].Payload) != "hello" || segs[1].Payload != nil || string(segs[2].Payload) != "world!" {
		t.Fatal("payloads")
	}
	if segs[2].Geo.Padding1 != (Span{int64(len(want)) - 2 - 22 - 3, int64(len(want)) - 2 - 22}) {
		t.Fatalf("padding 1 span %+v", segs[2].Geo.Padding1)
	}
}

func testNonceWithLast(seed, last byte) [24]byte {
	n := testNonce(seed)
	n[23] = last
	return n
}

func TestStreamBothDirectionsWithKeySearch(t *testing.T) {
	r := rand.New(rand.NewSource(6))
	for _, skew := range []int64{0, -120, 120} {
		cred := testCreds[2]
		key := KeyAt(cred, testNow+skew)
		cNonce, sNonce := testNonce(1), testNonce(2)
		c2s := genStream(r, 60, true)
		s2c := genStream(r, 60, false)
		cw, cb := encodeStream(t, NewStreamEncoder(key, cred.User, cNonce), c2s)
		sw, sb := encodeStream(t, NewStreamEncoder(key, cred.User, sNonce), s2c)
		ApplyUserHint(cred.User, cNonce[:])
		ApplyUserHint(cred.User, sNonce[:])

		d := NewStreamDecoder(testCreds)
		if _, _, _, ok := d.Key(); ok {
			t.Fatal("key known before any byte")
		}
		// 71 bytes are not enough to look for the key
		segs, err := d.Feed(cw[:71], testNow)
		if err != nil || len(segs) != 0 || d.PendingNeed() != 1 || d.Buffered() != 71 {
			t.Fatal(err, len(segs), d.PendingNeed())
		}
		if _, _, _, ok := d.Key(); ok {
			t.Fatal("key known after 71 bytes")
		}
		more, err := d.Feed(cw[71:], testNow)
		if err != nil {
			t.Fatal(err)
		}
		checkStreamSegments(t, more, c2s, cw, cb, cred.User, cNonce)
		k, user, slot, ok := d.Key()
		if !ok || k != key || user != cred.User || slot != SlotOf(testNow+skew) {
			t.Fatalf("Key() = %x %q %d %v", k, user, slot, ok)
		}
		if !more[0].HintOK || more[0].Slot != slot {
			t.Fatal("first segment hint / slot")
		}

		// the other direction shares the key and has its own nonce
		ds := NewStreamDecoderWithKey(k, user, slot)
		segs, err = ds.Feed(sw, testNow+100000) // time is irrelevant once the key is known
		if err != nil {
			t.Fatal(err)
		}
		checkStreamSegments(t, segs, s2c, sw, sb, cred.User, sNonce)
		if !segs[0].HintOK || segs[0].Slot != slot {
			t.Fatal("server direction hint / slot")
		}
	}
}

func TestStreamErrors(t *testing.T) {
	cred := testCreds[0]
	key := KeyAt(cred, testNow)
	r := rand.New(rand.NewSource(8))
	items := genStream(r, 12, true)
	wire, bounds := encodeStream(t, NewStreamEncoder(key, cred.User, testNonce(3)), items)

	// no credential matches
	d := NewStreamDecoder(testCreds[1:])
	segs, err := d.Feed(wire, testNow)
	if !errors.Is(err, ErrAuthMeta) || len(segs) != 0 {
		t.Fatal(err)
	}
	if _, err2 := d.Feed([]byte{1}, testNow); err2 != err {
		t.Fatal("error is not sticky")
	}
	if d.Err() != err {
		t.Fatal("Err()")
	}
	// clock too far off
	if _, err := NewStreamDecoder(testCreds).Feed(wire, testNow+600); !errors.Is(err, ErrAuthMeta) {
		t.Fatal(err)
	}
	if _, err := NewStreamDecoder(nil).Feed(wire, testNow); !errors.Is(err, ErrNoCredential) {
		t.Fatal(err)
	}

	// Tamper one byte anywhere outside padding: the segments before it are
	// returned, the error names the failing segment, nothing after it decodes.
	ref, err := NewStreamDecoder(testCreds).Feed(wire, testNow)
	if err != nil {
		t.Fatal(err)
	}
	for i := 0; i < len(wire); i += 1 + r.Intn(7) {
		idx := 0
		for bounds[idx] <= i {
			idx++
		}
		g := ref[idx].Geo
		off := int64(i)
		inPadding := off >= g.Padding1.Off && off < g.Padding1.End || off >= g.Padding2.Off && off < g.Padding2.End
		bad := append([]byte(nil), wire...)
		bad[i] ^= 0x10
		d := NewStreamDecoder(testCreds)
		segs, err := d.Feed(bad, testNow)
		if inPadding {
			if err != nil || len(segs) != len(items) {
				t.Fatalf("byte %d in padding: %v", i, err)
			}
			continue
		}
		if err == nil {
			t.Fatalf("byte %d (segment %d): tamper accepted", i, idx)
		}
		if len(segs) != idx {
			t.Fatalf("byte %d: %d segments before the error, want %d", i, len(segs), idx)
		}
		var de *DecodeError
		if !errors.As(err, &de) || de.Off != g.Start {
			t.Fatalf("byte %d: error %v does not name offset %d", i, err, g.Start)
		}
		if d.Offset() != g.Start {
			t.Fatalf("byte %d: offset %d", i, d.Offset())
		}
		if more, err2 := d.Feed(wire, testNow); err2 != err || more != nil {
			t.Fatal("error is not sticky")
		}
	}

	// Format violations inside an authenticated stream.
	e := NewStreamEncoder(key, cred.User, testNonce(3))
	good, _ := e.Encode(Meta{Type: TypeOpenReq, SessionID: 1}, nil, EncodeOpts{})
	badType, _ := e.Encode(Meta{Type: 12, SessionID: 1}, nil, EncodeOpts{})
	d = NewStreamDecoder(testCreds)
	segs, err = d.Feed(append(append([]byte(nil), good...), badType...), testNow)
	if !errors.Is(err, ErrUnknownType) || len(segs) != 1 {
		t.Fatal(err, len(segs))
	}
	var de *DecodeError
	if !errors.As(err, &de) || de.Meta == nil || de.Meta.Type != 12 || de.Off != int64(len(good)) {
		t.Fatalf("unknown type error: %+v", de)
	}

	e = NewStreamEncoder(key, cred.User, testNonce(3))
	big, _ := e.Encode(Meta{Type: TypeOpenReq, SessionID: 1}, make([]byte, 1025), EncodeOpts{})
	// rejected on the metadata alone, before the payload arrives
	if _, err := NewStreamDecoder(testCreds).Feed(big[:72], testNow); !errors.Is(err, ErrMetaInvalid) {
		t.Fatal(err)
	}

	// A length lie desynchronises the stream: the next metadata fails.
	e = NewStreamEncoder(key, cred.User, testNonce(3))
	lie, _ := e.Encode(Meta{Type: TypeAckC2S, SuffixLen: 3}, nil, EncodeOpts{OverrideLens: true, Padding2: fill(4, 0)})
	next, _ := e.Encode(Meta{Type: TypeAckC2S}, nil, EncodeOpts{})
	d = NewStreamDecoder(testCreds)
	segs, err = d.Feed(append(append([]byte(nil), lie...), next...), testNow)
	if !errors.Is(err, ErrAuthMeta) || len(segs) != 1 {
		t.Fatal(err, len(segs))
	}

	// Mixed low entropy padding.
	e = NewStreamEncoder(key, cred.User, testNonce(3))
	le := Meta{Type: TypeDataC2SLE, Byte1: 4, LEMask: 0x3fffffe7, LERotation: 0x20}
	mixed, err := e.Encode(le, []byte("0123456789abcdef"), EncodeOpts{BodyHook: func(b []byte) []byte {
		b[7] ^= 0x10 // bit 4 of chunk 0 is not selected by 0x...e7
		return b
	}})
	if err != nil {
		t.Fatal(err)
	}
	_, err = NewStreamDecoder(testCreds).Feed(mixed, testNow)
	if !errors.Is(err, ErrLowEntropy) {
		t.Fatalf("mixed low entropy padding: %v", err)
	}
}

func TestStreamPartialAndNeed(t *testing.T) {
	key := KeyAt(testCreds[0], testNow)
	e := NewStreamEncoder(key, "alice", testNonce(1))
	w, _ := e.Encode(Meta{Type: TypeDataC2S, SessionID: 5}, make([]byte, 100), EncodeOpts{Padding1: fill(10, 1), Padding2: fill(20, 2)})
	if len(w) != 24+48+10+100+16+20 {
		t.Fatal(len(w))
	}
	d := NewStreamDecoder(testCreds)
	d.Feed(w[:10], testNow)
	if d.PendingNeed() != 62 || d.Partial() != nil {
		t.Fatal(d.PendingNeed())
	}
	d.Feed(w[10:72], testNow)
	p := d.Partial()
	if p == nil || p.Meta.SessionID != 5 || p.Meta.PayloadLen != 100 || d.PendingNeed() != 146 || d.Buffered() != 72 || d.Offset() != 0 {
		t.Fatal(p, d.PendingNeed())
	}
	segs, err := d.Feed(w[72:], testNow)
	if err != nil || len(segs) != 1 || d.Partial() != nil || d.PendingNeed() != 48 || d.Offset() != int64(len(w)) {
		t.Fatal(err, len(segs), d.PendingNeed())
	}
	g := segs[0].Geo
	want := Geometry{Start: 0, End: 218,
		Nonce: Span{0, 24}, EncMeta: Span{24, 56}, MetaTag: Span{56, 72}, Padding1: Span{72, 82},
		Body: Span{82, 182}, PayloadTag: Span{182, 198}, Padding2: Span{198, 218}}
	if g != want {
		t.Fatalf("geometry %+v", g)
	}
	// the second segment has no nonce: zero-length span at its start
	w2, _ := e.Encode(Meta{Type: TypeCloseReq, SessionID: 5}, nil, EncodeOpts{})
	if len(w2) != 48 {
		t.Fatal(len(w2))
	}
	segs, err = d.Feed(w2, testNow)
	if err != nil || len(segs) != 1 {
		t.Fatal(err)
	}
	want = Geometry{Start: 218, End: 266,
		Nonce: Span{218, 218}, EncMeta: Span{218, 250}, MetaTag: Span{250, 266}, Padding1: Span{266, 266},
		Body: Span{266, 266}, PayloadTag: Span{266, 266}, Padding2: Span{266, 266}}
	if segs[0].Geo != want || segs[0].HasNonce || segs[0].WireLen != 48 {
		t.Fatalf("geometry %+v", segs[0].Geo)
	}
}

// Package refproto is an independent reference implementation of the mieru
// proxy protocol wire format, written from docs/protocol.md only.
//
// It is used as a wire tap (strict decoder that reports the byte geometry of
// every field) and as a reference peer (encoder with freedom over every
// documented field). Time is always an explicit parameter.
package refproto

import (
	"crypto/cipher"
	"crypto/sha256"
	"encoding/binary"

	"golang.org/x/crypto/chacha20poly1305"
	"golang.org/x/crypto/pbkdf2"
)

const (
	NonceLen = 24
	TagLen   = 16
	MetaLen  = 32

	// EncMetaLen is the size of the encrypted metadata plus its tag.
	EncMetaLen = MetaLen + TagLen

	TypeOpenReq   = 2
	TypeOpenResp  = 3
	TypeCloseReq  = 4
	TypeCloseResp = 5
	TypeDataC2S   = 6
	TypeDataS2C   = 7
	TypeAckC2S    = 8
	TypeAckS2C    = 9
	TypeDataC2SLE = 10
	TypeDataS2CLE = 11

	// SlotSeconds is the key rotation granularity.
	SlotSeconds = 120
	// KDFIterations is the PBKDF2 iteration count.
	KDFIterations = 64
	// KeyLen is the AEAD key length.
	KeyLen = 32

	// MaxSessionPayload is the largest payload a session segment may carry.
	MaxSessionPayload = 1024
	// MaxFragment is the largest application fragment of a data segment.
	MaxFragment = 32768
	// MaxFragmentMode32 is the largest fragment in low entropy mode 1.
	MaxFragmentMode32 = 32764
)

// Cred is one user's credential.
type Cred struct{ User, Password string }

// HashedPassword returns SHA-256(password || 0x00 || username).
func HashedPassword(c Cred) [32]byte {
	h := sha256.New()
	h.Write([]byte(c.Password))
	h.Write([]byte{0x00})
	h.Write([]byte(c.User))
	var out [32]byte
	copy(out[:], h.Sum(nil))
	return out
}

func floorDiv(a, b int64) int64 {
	q := a / b
	if (a%b != 0) && ((a < 0) != (b < 0)) {
		q--
	}
	return q
}

// SlotOf rounds unixSec to the nearest multiple of 120 seconds; exact halves
// round up.
func SlotOf(unixSec int64) int64 {
	return floorDiv(unixSec+SlotSeconds/2, SlotSeconds) * SlotSeconds
}

// TimeSalt returns SHA-256 of the 8-byte big-endian slot value.
func TimeSalt(slot int64) [32]byte {
	var b [8]byte
	binary.BigEndian.PutUint64(b[:], uint64(slot))
	return sha256.Sum256(b[:])
}

// KeyForSlot derives the AEAD key of a hashed password for one time slot.
func KeyForSlot(hashed [32]byte, slot int64) [32]byte {
	salt := TimeSalt(slot)
	k := pbkdf2.Key(hashed[:], salt[:], KDFIterations, KeyLen, sha256.New)
	var out [32]byte
	copy(out[:], k)
	return out
}

// KeyAt is KeyForSlot(HashedPassword(c), SlotOf(unixSec)).
func KeyAt(c Cred, unixSec int64) [32]byte {
	return KeyForSlot(HashedPassword(c), SlotOf(unixSec))
}

// CandidateSlots returns the three slots a receiver tries at unixSec.
func CandidateSlots(unixSec int64) [3]int64 {
	s := SlotOf(unixSec)
	return [3]int64{s - SlotSeconds, s, s + SlotSeconds}
}

// TimestampMinOf returns the metadata timestamp (minutes since the epoch).
func TimestampMinOf(unixSec int64) uint32 {
	return uint32(floorDiv(unixSec, 60))
}

// UserHint returns the first 4 bytes of SHA-256(user || nonce[0:16]).
// nonce must hold at least 16 bytes.
func UserHint(user string, nonce []byte) [4]byte {
	h := sha256.New()
	h.Write([]byte(user))
	h.Write(nonce[0:16])
	sum := h.Sum(nil)
	var out [4]byte
	copy(out[:], sum[:4])
	return out
}

// ApplyUserHint overwrites nonce[20:24] with the user hint. nonce must hold
// 24 bytes.
func ApplyUserHint(user string, nonce []byte) {
	hint := UserHint(user, nonce)
	copy(nonce[NonceLen-4:NonceLen], hint[:])
}

// HintMatches reports whether nonce[20:24] carries the hint of user.
func HintMatches(user string, nonce []byte) bool {
	if len(nonce) < NonceLen {
		return false
	}
	hint := UserHint(user, nonce)
	return hint[0] == nonce[20] && hint[1] == nonce[21] && hint[2] == nonce[22] && hint[3] == nonce[23]
}

// IncrementNonce adds 1 to the nonce seen as one big-endian integer; it wraps
// around to zero after the all-ones value.
func IncrementNonce(n *[NonceLen]byte) {
	for i := NonceLen - 1; i >= 0; i-- {
		n[i]++
		if n[i] != 0 {
			return
		}
	}
}

func newAEAD(key [32]byte) cipher.AEAD {
	a, err := chacha20poly1305.NewX(key[:])
	if err != nil {
		// Only possible with a wrong key length, which the type excludes.
		panic(err)
	}
	return a
}

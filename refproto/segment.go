package refproto

import (
	"crypto/cipher"
	"fmt"
)

// Span is a half-open byte range [Off, End).
type Span struct{ Off, End int64 }

// Len returns End - Off.
func (s Span) Len() int64 { return s.End - s.Off }

// Geometry is the position of every field of one segment inside its stream
// (absolute stream offsets) or datagram (offsets from the datagram start).
// Absent fields are zero-length spans located where the field would be.
type Geometry struct {
	Start, End                                                    int64
	Nonce, EncMeta, MetaTag, Padding1, Body, PayloadTag, Padding2 Span
}

// Spans returns the seven spans in wire order.
func (g *Geometry) Spans() [7]Span {
	return [7]Span{g.Nonce, g.EncMeta, g.MetaTag, g.Padding1, g.Body, g.PayloadTag, g.Padding2}
}

// Segment is one decoded segment.
type Segment struct {
	Meta     Meta
	Payload  []byte   // decrypted application payload (nil if none)
	Nonce    [24]byte // nonce used for the metadata AEAD operation
	HasNonce bool     // nonce was present on the wire in this segment
	Geo      Geometry
	User     string // credential that authenticated it
	Slot     int64  // key slot that authenticated it
	LEPadBit uint8
	WireLen  int // total bytes of the segment on the wire

	HintOK   bool   // HasNonce and the nonce carries the hint of User
	Padding1 []byte // copy of padding 1 (nil if none)
	Padding2 []byte // copy of padding 2 (nil if none)
	AEADOps  int    // AEAD operations this segment consumed (1 or 2)
}

// DecodeError is returned by the decoders. Err is one of the sentinel errors
// (possibly wrapped). Meta is set when the metadata authenticated and parsed
// before the failure.
type DecodeError struct {
	Off  int64 // offset of the first byte of the failing segment
	Err  error
	Meta *Meta
}

func (e *DecodeError) Error() string {
	if e.Meta != nil {
		return fmt.Sprintf("segment at offset %d (%s): %v", e.Off, TypeName(e.Meta.Type), e.Err)
	}
	return fmt.Sprintf("segment at offset %d: %v", e.Off, e.Err)
}

func (e *DecodeError) Unwrap() error { return e.Err }

// openMeta authenticates and parses the 48 bytes of encrypted metadata.
// The returned Meta is meaningful also with ErrUnknownType.
func openMeta(a cipher.AEAD, nonce []byte, enc []byte) (Meta, bool, error) {
	plain, err := a.Open(nil, nonce, enc, nil)
	if err != nil {
		return Meta{}, false, ErrAuthMeta
	}
	m, err := ParseMeta(plain)
	if err != nil {
		return m, true, err
	}
	return m, true, m.Validate()
}

// finishSegment decodes the bytes that follow the encrypted metadata. rest
// must hold exactly seg.Meta.RestLen() bytes; restOff is its offset. It sets
// the remaining geometry, paddings, payload and pad bit.
func finishSegment(a cipher.AEAD, seg *Segment, rest []byte, restOff int64, payloadNonce []byte) error {
	m := &seg.Meta
	prefix, body, suffix := m.layout()
	g := &seg.Geo
	pos := restOff
	g.Padding1 = Span{pos, pos + int64(prefix)}
	pos = g.Padding1.End
	if body > 0 {
		g.Body = Span{pos, pos + int64(body)}
		g.PayloadTag = Span{g.Body.End, g.Body.End + TagLen}
	} else {
		g.Body = Span{pos, pos}
		g.PayloadTag = Span{pos, pos}
	}
	pos = g.PayloadTag.End
	g.Padding2 = Span{pos, pos + int64(suffix)}
	g.End = g.Padding2.End
	seg.WireLen = int(g.End - g.Start)
	seg.AEADOps = 1

	if prefix > 0 {
		seg.Padding1 = append([]byte(nil), rest[:prefix]...)
	}
	if suffix > 0 {
		seg.Padding2 = append([]byte(nil), rest[len(rest)-suffix:]...)
	}
	if body == 0 {
		return nil
	}
	seg.AEADOps = 2
	wireBody := rest[prefix : prefix+body]
	tag := rest[prefix+body : prefix+body+TagLen]
	var ct []byte
	if m.IsLowEntropy() {
		dec, pad, err := LEDecode(wireBody, int(m.ExtractedLen), m.Byte1, m.LEMask, m.LERotation)
		if err != nil {
			return err
		}
		seg.LEPadBit = pad
		ct = append(dec, tag...)
	} else {
		ct = rest[prefix : prefix+body+TagLen]
	}
	plain, err := a.Open(nil, payloadNonce, ct, nil)
	if err != nil {
		return ErrAuthPayload
	}
	if plain == nil {
		plain = []byte{}
	}
	seg.Payload = plain
	return nil
}

// DecodeDatagram decodes one UDP datagram, trying every credential with every
// candidate slot of unixSec. The datagram must be consumed exactly.
func DecodeDatagram(b []byte, creds []Cred, unixSec int64) (*Segment, error) {
	if len(b) < NonceLen+EncMetaLen {
		return nil, &DecodeError{Err: fmt.Errorf("%w: datagram of %d bytes", ErrShort, len(b))}
	}
	if len(creds) == 0 {
		return nil, &DecodeError{Err: ErrNoCredential}
	}
	nonce := b[:NonceLen]
	enc := b[NonceLen : NonceLen+EncMetaLen]
	for _, c := range orderByHint(creds, nonce) {
		hp := HashedPassword(c)
		for _, slot := range CandidateSlots(unixSec) {
			key := KeyForSlot(hp, slot)
			a := newAEAD(key)
			if _, err := a.Open(nil, nonce, enc, nil); err != nil {
				continue
			}
			seg, err := decodeDatagram(b, a)
			if seg != nil {
				seg.User = c.User
				seg.Slot = slot
				seg.HintOK = HintMatches(c.User, nonce)
			}
			return seg, err
		}
	}
	return nil, &DecodeError{Err: ErrAuthMeta}
}

// DecodeDatagramWithKey decodes one UDP datagram with a known key. User and
// Slot of the result are left empty.
func DecodeDatagramWithKey(b []byte, key [32]byte) (*Segment, error) {
	if len(b) < NonceLen+EncMetaLen {
		return nil, &DecodeError{Err: fmt.Errorf("%w: datagram of %d bytes", ErrShort, len(b))}
	}
	seg, err := decodeDatagram(b, newAEAD(key))
	return seg, err
}

// decodeDatagram returns a nil segment together with every error.
func decodeDatagram(b []byte, a cipher.AEAD) (*Segment, error) {
	nonce := b[:NonceLen]
	m, authed, err := openMeta(a, nonce, b[NonceLen:NonceLen+EncMetaLen])
	if err != nil {
		de := &DecodeError{Err: err}
		if authed {
			de.Meta = &m
		}
		return nil, de
	}
	seg := &Segment{Meta: m, HasNonce: true}
	copy(seg.Nonce[:], nonce)
	seg.Geo.Start = 0
	seg.Geo.Nonce = Span{0, NonceLen}
	seg.Geo.EncMeta = Span{NonceLen, NonceLen + MetaLen}
	seg.Geo.MetaTag = Span{NonceLen + MetaLen, NonceLen + EncMetaLen}
	rest := b[NonceLen+EncMetaLen:]
	want := m.RestLen()
	if len(rest) < want {
		return nil, &DecodeError{Meta: &m, Err: fmt.Errorf("%w: %d bytes follow the metadata, %d declared", ErrTruncated, len(rest), want)}
	}
	if len(rest) > want {
		return nil, &DecodeError{Meta: &m, Err: fmt.Errorf("%w: %d bytes follow the metadata, %d declared", ErrTrailing, len(rest), want)}
	}
	if err := finishSegment(a, seg, rest, NonceLen+EncMetaLen, nonce); err != nil {
		return nil, &DecodeError{Meta: &m, Err: err}
	}
	return seg, nil
}

// orderByHint returns creds with those whose hint matches the nonce first.
// All credentials are still tried: the hint is an accelerator, not a gate.
func orderByHint(creds []Cred, nonce []byte) []Cred {
	out := make([]Cred, 0, len(creds))
	for _, c := range creds {
		if HintMatches(c.User, nonce) {
			out = append(out, c)
		}
	}
	for _, c := range creds {
		if !HintMatches(c.User, nonce) {
			out = append(out, c)
		}
	}
	return out
}

// EncodeOpts lets the caller choose every degree of freedom of one segment.
// The zero value gives the minimal segment (no padding).
type EncodeOpts struct {
	// Raw padding bytes. Their lengths are written into the metadata unless
	// OverrideLens is set. Without OverrideLens each is limited to 255 bytes
	// and Padding1 must be empty for the session layout.
	Padding1, Padding2 []byte
	// OverrideLens sends PrefixLen / SuffixLen / PayloadLen / ExtractedLen of
	// the Meta as given. The bytes put on the wire are unaffected.
	OverrideLens bool
	// LEPadBit is the uniform padding bit for types 10/11 (0 or 1).
	LEPadBit uint8

	// ---- additions for hostile peers ----

	// MetaHook, if set, is called with the final Meta (lengths filled in)
	// right before it is marshalled.
	MetaHook func(m *Meta)
	// RawMeta sends Meta.Raw instead of Meta.Marshal() (after MetaHook).
	RawMeta bool
	// BodyHook, if set, receives the on-wire payload body (ciphertext, low
	// entropy encoded for types 10/11) and returns what is sent instead. The
	// lengths in the metadata are those of the original body.
	BodyHook func(body []byte) []byte
	// SealEmptyPayload performs the payload AEAD operation even for an empty
	// payload, which emits a bare 16-byte tag.
	SealEmptyPayload bool
}

// encodeAfterNonce builds everything that follows the nonce. sealed reports
// whether a payload AEAD operation was performed.
func encodeAfterNonce(a cipher.AEAD, metaNonce, payloadNonce []byte, m Meta, payload []byte, o EncodeOpts) (out []byte, sealed bool, err error) {
	if !o.OverrideLens {
		if len(o.Padding1) > 255 || len(o.Padding2) > 255 {
			return nil, false, fmt.Errorf("%w: padding longer than 255 bytes", ErrEncode)
		}
		if m.IsSession() && len(o.Padding1) > 0 {
			return nil, false, fmt.Errorf("%w: the session layout has no padding 1", ErrEncode)
		}
	}
	var body, tag []byte
	if len(payload) > 0 || o.SealEmptyPayload {
		ct := a.Seal(nil, payloadNonce, payload, nil)
		body, tag = ct[:len(payload)], ct[len(payload):]
		sealed = true
	}
	extracted := len(body)
	if m.IsLowEntropy() {
		body, err = LEEncode(body, m.Byte1, m.LEMask, m.LERotation, o.LEPadBit)
		if err != nil {
			return nil, false, fmt.Errorf("%w: %w", ErrEncode, err)
		}
	}
	if !o.OverrideLens {
		if len(body) > 0xffff {
			return nil, false, fmt.Errorf("%w: payload body of %d bytes does not fit the 16-bit length", ErrEncode, len(body))
		}
		m.PayloadLen = uint16(len(body))
		m.SuffixLen = uint8(len(o.Padding2))
		if !m.IsSession() {
			m.PrefixLen = uint8(len(o.Padding1))
		}
		if m.IsLowEntropy() {
			m.ExtractedLen = uint16(extracted)
		}
	}
	if o.MetaHook != nil {
		o.MetaHook(&m)
	}
	plainMeta := m.Raw
	if !o.RawMeta {
		plainMeta = m.Marshal()
	}
	if o.BodyHook != nil {
		body = o.BodyHook(body)
	}
	out = make([]byte, 0, EncMetaLen+len(o.Padding1)+len(body)+len(tag)+len(o.Padding2))
	out = a.Seal(out, metaNonce, plainMeta[:], nil)
	out = append(out, o.Padding1...)
	out = append(out, body...)
	out = append(out, tag...)
	out = append(out, o.Padding2...)
	return out, sealed, nil
}

// EncodeDatagram builds nonce || segment for UDP. If user != "" the user hint
// is applied to the nonce first. Metadata and payload use the same nonce.
func EncodeDatagram(key [32]byte, user string, nonce [24]byte, m Meta, payload []byte, o EncodeOpts) ([]byte, error) {
	if user != "" {
		ApplyUserHint(user, nonce[:])
	}
	rest, _, err := encodeAfterNonce(newAEAD(key), nonce[:], nonce[:], m, payload, o)
	if err != nil {
		return nil, err
	}
	return append(append(make([]byte, 0, NonceLen+len(rest)), nonce[:]...), rest...), nil
}

package refproto

import (
	"encoding/binary"
	"fmt"
	"math/bits"
)

// LEModeSourceBytes returns the source capacity C of one 8-byte chunk.
func LEModeSourceBytes(mode uint8) (int, bool) {
	switch mode {
	case 1:
		return 4, true
	case 2:
		return 5, true
	case 3:
		return 6, true
	case 4:
		return 7, true
	}
	return 0, false
}

// LEMaskWeight returns the number of one bits the 32-bit half-mask needs.
func LEMaskWeight(mode uint8) (int, bool) {
	c, ok := LEModeSourceBytes(mode)
	return c * 4, ok
}

// LEEncodedLen returns ceil(n / C) * 8, or -1 for an invalid mode.
func LEEncodedLen(n int, mode uint8) int {
	c, ok := LEModeSourceBytes(mode)
	if !ok {
		return -1
	}
	if n <= 0 {
		return 0
	}
	return (n + c - 1) / c * 8
}

// LEValidRotation accepts 0, 1..15 and 16*1..16*15.
func LEValidRotation(r uint8) bool {
	return r&0x0f == 0 || r&0xf0 == 0
}

// LEChunkMask returns the 64-bit mask used by chunk i: the initial mask
// (half-mask repeated twice) rotated by i*R bits from its initial value,
// right for rotation values 1..15, left for 16*1..16*15.
func LEChunkMask(halfMask uint32, rotation uint8, i int) uint64 {
	mask := uint64(halfMask)<<32 | uint64(halfMask)
	switch {
	case rotation == 0:
		return mask
	case rotation&0xf0 == 0:
		s := (i * int(rotation)) % 64
		return bits.RotateLeft64(mask, -s)
	default:
		s := (i * int(rotation>>4)) % 64
		return bits.RotateLeft64(mask, s)
	}
}

func leCheckParams(mode uint8, halfMask uint32, rotation uint8) (int, error) {
	c, ok := LEModeSourceBytes(mode)
	if !ok {
		return 0, fmt.Errorf("%w: mode %d", ErrLowEntropy, mode)
	}
	if got := bits.OnesCount32(halfMask); got != c*4 {
		return 0, fmt.Errorf("%w: half-mask %#08x has %d one bits, mode %d needs %d", ErrLowEntropy, halfMask, got, mode, c*4)
	}
	if !LEValidRotation(rotation) {
		return 0, fmt.Errorf("%w: rotation %#02x", ErrLowEntropy, rotation)
	}
	return c, nil
}

// leDeposit puts the low nbits bits of src into the lowest nbits one
// positions of mask (lowest source bit to lowest position); every other
// position gets the padding bit.
func leDeposit(src uint64, nbits int, mask uint64, padBit uint8) uint64 {
	var out uint64
	if padBit != 0 {
		out = ^uint64(0)
	}
	k := 0
	for rest := mask; rest != 0 && k < nbits; rest &= rest - 1 {
		p := uint(bits.TrailingZeros64(rest))
		out &^= 1 << p
		out |= (src >> uint(k) & 1) << p
		k++
	}
	return out
}

// leExtract is the inverse of leDeposit. ok is false if any non-data position
// differs from the padding bit.
func leExtract(w uint64, nbits int, mask uint64, padBit uint8) (src uint64, ok bool) {
	var padWord uint64
	if padBit != 0 {
		padWord = ^uint64(0)
	}
	dataPos := uint64(0)
	k := 0
	for rest := mask; rest != 0 && k < nbits; rest &= rest - 1 {
		p := uint(bits.TrailingZeros64(rest))
		dataPos |= 1 << p
		src |= (w >> p & 1) << uint(k)
		k++
	}
	return src, (w^padWord)&^dataPos == 0
}

func beUint(b []byte) uint64 {
	var v uint64
	for _, x := range b {
		v = v<<8 | uint64(x)
	}
	return v
}

func bePut(b []byte, v uint64) {
	for i := len(b) - 1; i >= 0; i-- {
		b[i] = byte(v)
		v >>= 8
	}
}

// LEEncode expands a ciphertext body into ceil(len/C) big-endian 64-bit
// chunks. padBit must be 0 or 1.
func LEEncode(body []byte, mode uint8, halfMask uint32, rotation uint8, padBit uint8) ([]byte, error) {
	c, err := leCheckParams(mode, halfMask, rotation)
	if err != nil {
		return nil, err
	}
	if padBit > 1 {
		return nil, fmt.Errorf("%w: padding bit %d", ErrLowEntropy, padBit)
	}
	out := make([]byte, LEEncodedLen(len(body), mode))
	for i := 0; i*c < len(body); i++ {
		chunk := body[i*c:]
		if len(chunk) > c {
			chunk = chunk[:c]
		}
		w := leDeposit(beUint(chunk), 8*len(chunk), LEChunkMask(halfMask, rotation, i), padBit)
		binary.BigEndian.PutUint64(out[i*8:], w)
	}
	return out, nil
}

// LEDecode is the strict inverse of LEEncode. n is the extracted length. It
// fails for an invalid mode, mask population or rotation, for len(enc) not
// equal to LEEncodedLen(n, mode), and for any non-data position (unselected
// positions and the unused selected positions of the final partial chunk)
// that differs from the padding bit inferred from the first chunk. With
// n == 0 and an empty enc it returns an empty body and padding bit 0.
func LEDecode(enc []byte, n int, mode uint8, halfMask uint32, rotation uint8) (body []byte, padBit uint8, err error) {
	c, err := leCheckParams(mode, halfMask, rotation)
	if err != nil {
		return nil, 0, err
	}
	if n < 0 {
		return nil, 0, fmt.Errorf("%w: negative extracted length", ErrLowEntropy)
	}
	if len(enc)%8 != 0 {
		return nil, 0, fmt.Errorf("%w: encoded length %d is not a multiple of 8", ErrLowEntropy, len(enc))
	}
	if want := LEEncodedLen(n, mode); len(enc) != want {
		return nil, 0, fmt.Errorf("%w: encoded length %d, extracted length %d needs %d", ErrLowEntropy, len(enc), n, want)
	}
	body = make([]byte, n)
	if n == 0 {
		return body, 0, nil
	}
	// Every mode leaves at least 8 unselected positions in each chunk, so the
	// first chunk always has a padding position to infer from.
	first := binary.BigEndian.Uint64(enc)
	padPos := uint(bits.TrailingZeros64(^LEChunkMask(halfMask, rotation, 0)))
	padBit = uint8(first >> padPos & 1)
	for i := 0; i*c < n; i++ {
		cnt := n - i*c
		if cnt > c {
			cnt = c
		}
		w := binary.BigEndian.Uint64(enc[i*8:])
		src, ok := leExtract(w, 8*cnt, LEChunkMask(halfMask, rotation, i), padBit)
		if !ok {
			return nil, padBit, fmt.Errorf("%w: mixed padding in chunk %d (padding bit %d)", ErrLowEntropy, i, padBit)
		}
		bePut(body[i*c:i*c+cnt], src)
	}
	return body, padBit, nil
}

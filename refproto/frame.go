package refproto

import (
	"encoding/binary"
	"fmt"
)

const (
	frameMarker1 = 0x00
	frameMarker2 = 0xff
	// FrameOverhead is marker 1 + data length + marker 2.
	FrameOverhead = 4
	// MaxFrameData is the largest data length the 16-bit field can carry.
	MaxFrameData = 0xffff
)

// FrameUDPAssociate wraps data as 0x00 | uint16 len | data | 0xff.
func FrameUDPAssociate(data []byte) ([]byte, error) {
	if len(data) > MaxFrameData {
		return nil, fmt.Errorf("%w: data of %d bytes exceeds %d", ErrFrame, len(data), MaxFrameData)
	}
	out := make([]byte, 0, len(data)+FrameOverhead)
	out = append(out, frameMarker1, 0, 0)
	binary.BigEndian.PutUint16(out[1:3], uint16(len(data)))
	out = append(out, data...)
	out = append(out, frameMarker2)
	return out, nil
}

// FrameReader splits a byte stream of UDP associate frames. The zero value is
// ready to use. Markers are checked strictly and the error is sticky.
type FrameReader struct {
	buf []byte
	off int64
	err error
}

// Feed appends bytes and returns the frames completed by them (each a fresh
// slice; an empty frame is a non-nil empty slice). Frames completed before an
// error are still returned.
func (r *FrameReader) Feed(b []byte) (frames [][]byte, err error) {
	if r.err != nil {
		return nil, r.err
	}
	r.buf = append(r.buf, b...)
	for len(r.buf) > 0 {
		if r.buf[0] != frameMarker1 {
			r.err = fmt.Errorf("%w: marker 1 is %#02x at offset %d", ErrFrame, r.buf[0], r.off)
			return frames, r.err
		}
		if len(r.buf) < 3 {
			break
		}
		n := int(binary.BigEndian.Uint16(r.buf[1:3]))
		if len(r.buf) < n+FrameOverhead {
			break
		}
		if r.buf[3+n] != frameMarker2 {
			r.err = fmt.Errorf("%w: marker 2 is %#02x at offset %d", ErrFrame, r.buf[3+n], r.off+int64(3+n))
			return frames, r.err
		}
		frames = append(frames, append([]byte{}, r.buf[3:3+n]...))
		r.buf = r.buf[n+FrameOverhead:]
		r.off += int64(n + FrameOverhead)
	}
	if len(r.buf) == 0 {
		r.buf = nil
	}
	return frames, nil
}

// Buffered returns the bytes of an incomplete frame held by the reader.
func (r *FrameReader) Buffered() int { return len(r.buf) }

// ParseUDPAssociateFrame decodes exactly one frame occupying all of b.
func ParseUDPAssociateFrame(b []byte) ([]byte, error) {
	var r FrameReader
	frames, err := r.Feed(b)
	if err != nil {
		return nil, err
	}
	if len(frames) != 1 || r.Buffered() != 0 {
		return nil, fmt.Errorf("%w: %d complete frames and %d left over bytes, want exactly one frame", ErrFrame, len(frames), r.Buffered())
	}
	return frames[0], nil
}

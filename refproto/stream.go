package refproto

import (
	"crypto/cipher"
)

// StreamDecoder decodes ONE direction of one TCP connection.
type StreamDecoder struct {
	creds []Cred

	haveKey bool
	key     [32]byte
	user    string
	slot    int64
	aead    cipher.AEAD

	haveNonce bool
	nonce     [NonceLen]byte // nonce of the next AEAD operation

	buf []byte // undecoded bytes; buf[0] is at stream offset off
	off int64
	err error

	cur    *Segment // metadata decoded, waiting for the rest of the segment
	curHdr int      // bytes of buf taken by [nonce] + encrypted metadata of cur
	need   int

	ops uint64 // AEAD operations performed so far in this direction
}

// NewStreamDecoder returns a decoder for the client->server direction. The
// key is found by trying creds x CandidateSlots on the first 72 bytes.
func NewStreamDecoder(creds []Cred) *StreamDecoder {
	return &StreamDecoder{creds: append([]Cred(nil), creds...), need: NonceLen + EncMetaLen}
}

// NewStreamDecoderWithKey returns a decoder whose key is already known
// (server->client direction). The nonce is still read from the stream.
func NewStreamDecoderWithKey(key [32]byte, user string, slot int64) *StreamDecoder {
	return &StreamDecoder{
		haveKey: true, key: key, user: user, slot: slot, aead: newAEAD(key),
		need: NonceLen + EncMetaLen,
	}
}

// Key returns the key that authenticated the stream, once known.
func (d *StreamDecoder) Key() (key [32]byte, user string, slot int64, ok bool) {
	return d.key, d.user, d.slot, d.haveKey
}

// Buffered returns the bytes fed but not yet part of a complete segment.
func (d *StreamDecoder) Buffered() int { return len(d.buf) }

// Offset returns the absolute offset of the next undecoded byte.
func (d *StreamDecoder) Offset() int64 { return d.off }

// PendingNeed returns how many more bytes are needed to make progress.
func (d *StreamDecoder) PendingNeed() int { return d.need }

// Err returns the sticky error, if any.
func (d *StreamDecoder) Err() error { return d.err }

// Ops returns the number of AEAD operations decoded so far.
func (d *StreamDecoder) Ops() uint64 { return d.ops }

// Partial returns the segment whose metadata is already decoded but whose
// remaining bytes have not all arrived, or nil. Only Meta, Nonce, HasNonce
// and the first three geometry spans are meaningful.
func (d *StreamDecoder) Partial() *Segment { return d.cur }

func (d *StreamDecoder) fail(err error, m *Meta) error {
	d.err = &DecodeError{Off: d.off, Err: err, Meta: m}
	d.cur = nil
	d.need = 0
	return d.err
}

// findKey tries every credential and candidate slot on the first segment.
func (d *StreamDecoder) findKey(nonce, enc []byte, unixSec int64) bool {
	for _, c := range orderByHint(d.creds, nonce) {
		hp := HashedPassword(c)
		for _, slot := range CandidateSlots(unixSec) {
			key := KeyForSlot(hp, slot)
			a := newAEAD(key)
			if _, err := a.Open(nil, nonce, enc, nil); err == nil {
				d.haveKey, d.key, d.user, d.slot, d.aead = true, key, c.User, slot, a
				return true
			}
		}
	}
	return false
}

// Feed appends stream bytes and returns the segments completed by them.
// unixSec is used only while the key is unknown. The error is sticky;
// segments decoded before the error are still returned.
func (d *StreamDecoder) Feed(b []byte, unixSec int64) ([]*Segment, error) {
	if d.err != nil {
		return nil, d.err
	}
	d.buf = append(d.buf, b...)
	var out []*Segment
	for {
		if d.cur == nil {
			hdr := EncMetaLen
			if !d.haveNonce {
				hdr += NonceLen
			}
			if len(d.buf) < hdr {
				d.need = hdr - len(d.buf)
				break
			}
			seg := &Segment{}
			seg.Geo.Start = d.off
			pos := d.off
			if !d.haveNonce {
				copy(d.nonce[:], d.buf[:NonceLen])
				seg.HasNonce = true
				seg.Geo.Nonce = Span{pos, pos + NonceLen}
				pos += NonceLen
			} else {
				seg.Geo.Nonce = Span{pos, pos}
			}
			seg.Geo.EncMeta = Span{pos, pos + MetaLen}
			seg.Geo.MetaTag = Span{pos + MetaLen, pos + EncMetaLen}
			enc := d.buf[hdr-EncMetaLen : hdr]
			if !d.haveKey {
				if len(d.creds) == 0 {
					return out, d.fail(ErrNoCredential, nil)
				}
				if !d.findKey(d.nonce[:], enc, unixSec) {
					return out, d.fail(ErrAuthMeta, nil)
				}
			}
			seg.Nonce = d.nonce
			m, authed, err := openMeta(d.aead, d.nonce[:], enc)
			if err != nil {
				if authed {
					return out, d.fail(err, &m)
				}
				return out, d.fail(err, nil)
			}
			d.haveNonce = true
			IncrementNonce(&d.nonce)
			d.ops++
			seg.Meta = m
			seg.User, seg.Slot = d.user, d.slot
			if seg.HasNonce {
				seg.HintOK = HintMatches(d.user, seg.Nonce[:])
			}
			d.cur, d.curHdr = seg, hdr
		}
		total := d.curHdr + d.cur.Meta.RestLen()
		if len(d.buf) < total {
			d.need = total - len(d.buf)
			break
		}
		seg := d.cur
		if err := finishSegment(d.aead, seg, d.buf[d.curHdr:total], d.off+int64(d.curHdr), d.nonce[:]); err != nil {
			m := seg.Meta
			return out, d.fail(err, &m)
		}
		if seg.AEADOps == 2 {
			IncrementNonce(&d.nonce)
			d.ops++
		}
		out = append(out, seg)
		d.buf = d.buf[total:]
		d.off += int64(total)
		d.cur = nil
	}
	// Do not pin the memory of already decoded bytes.
	if len(d.buf) == 0 {
		d.buf = nil
	} else if cap(d.buf) > 4*len(d.buf)+4096 {
		d.buf = append([]byte(nil), d.buf...)
	}
	return out, nil
}

// StreamEncoder encodes one direction of a TCP connection.
type StreamEncoder struct {
	aead      cipher.AEAD
	nonce     [NonceLen]byte // nonce of the next AEAD operation
	sentNonce bool
	ops       uint64
}

// NewStreamEncoder returns an encoder starting at nonce. If user != "" the
// user hint is applied to the nonce first.
func NewStreamEncoder(key [32]byte, user string, nonce [24]byte) *StreamEncoder {
	if user != "" {
		ApplyUserHint(user, nonce[:])
	}
	return &StreamEncoder{aead: newAEAD(key), nonce: nonce}
}

// NextNonce returns the nonce the next AEAD operation will use.
func (e *StreamEncoder) NextNonce() [24]byte { return e.nonce }

// Ops returns the number of AEAD operations performed so far.
func (e *StreamEncoder) Ops() uint64 { return e.ops }

// Encode builds the next segment; the first call is prefixed by the nonce.
// The metadata uses the next nonce and the payload, if any, the one after.
// On error the encoder state is unchanged.
func (e *StreamEncoder) Encode(m Meta, payload []byte, o EncodeOpts) ([]byte, error) {
	metaNonce := e.nonce
	payloadNonce := e.nonce
	IncrementNonce(&payloadNonce)
	rest, sealed, err := encodeAfterNonce(e.aead, metaNonce[:], payloadNonce[:], m, payload, o)
	if err != nil {
		return nil, err
	}
	var out []byte
	if !e.sentNonce {
		out = append(out, metaNonce[:]...)
		e.sentNonce = true
	}
	out = append(out, rest...)
	e.nonce = payloadNonce
	e.ops++
	if sealed {
		IncrementNonce(&e.nonce)
		e.ops++
	}
	return out, nil
}

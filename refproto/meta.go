package refproto

import (
	"encoding/binary"
	"errors"
	"fmt"
	"math/bits"
)

// Sentinel errors; every decoder error wraps exactly one of them.
var (
	ErrShort        = errors.New("refproto: input too short")
	ErrUnknownType  = errors.New("refproto: unknown protocol type")
	ErrAuthMeta     = errors.New("refproto: metadata authentication failed")
	ErrAuthPayload  = errors.New("refproto: payload authentication failed")
	ErrMetaInvalid  = errors.New("refproto: invalid metadata")
	ErrLowEntropy   = errors.New("refproto: invalid low entropy encoding")
	ErrTrailing     = errors.New("refproto: trailing bytes after segment")
	ErrTruncated    = errors.New("refproto: datagram shorter than its metadata declares")
	ErrEncode       = errors.New("refproto: cannot encode")
	ErrFrame        = errors.New("refproto: bad UDP associate frame")
	ErrNoCredential = errors.New("refproto: no credential to try")
)

// Byte offsets of the metadata fields, straight from the tables of the
// document.
const (
	offType      = 0
	offByte1     = 1
	offTimestamp = 2
	offSessionID = 6
	offSeq       = 10

	// session layout
	offSessStatus     = 14
	offSessPayloadLen = 15
	offSessSuffixLen  = 17
	offSessUnused     = 18 // 14 bytes

	// data layout
	offDataUnAck      = 14
	offDataWindow     = 18
	offDataFragment   = 20
	offDataPrefixLen  = 21
	offDataPayloadLen = 22
	offDataSuffixLen  = 24
	offDataUnused     = 25 // 7 bytes

	// low entropy extension
	offLEMask      = 25
	offLEExtracted = 29
	offLERotation  = 31
)

// Meta is the decoded 32-byte metadata of any of the three layouts.
type Meta struct {
	Type         uint8
	Byte1        uint8 // raw byte 1 (low entropy mode for types 10/11, otherwise "unused")
	TimestampMin uint32
	SessionID    uint32
	Seq          uint32
	// session layout
	Status uint8
	// data layout
	UnAckSeq   uint32
	Window     uint16
	Fragment   uint8
	PrefixLen  uint8
	PayloadLen uint16
	SuffixLen  uint8
	// low entropy extension
	LEMask       uint32
	ExtractedLen uint16
	LERotation   uint8

	Raw           [32]byte // the plaintext bytes as parsed / to be sent
	UnusedNonZero bool     // an "unused" byte of the layout was not zero
}

func isSessionType(t uint8) bool    { return t >= TypeOpenReq && t <= TypeCloseResp }
func isDataAckType(t uint8) bool    { return t >= TypeDataC2S && t <= TypeAckS2C }
func isLowEntropyType(t uint8) bool { return t == TypeDataC2SLE || t == TypeDataS2CLE }

// KnownType reports whether t is one of the ten documented protocol types.
func KnownType(t uint8) bool {
	return isSessionType(t) || isDataAckType(t) || isLowEntropyType(t)
}

// IsSession reports the session layout (types 2..5).
func (m *Meta) IsSession() bool { return isSessionType(m.Type) }

// IsDataAck reports the plain data layout (types 6..9).
func (m *Meta) IsDataAck() bool { return isDataAckType(m.Type) }

// IsLowEntropy reports the low entropy data layout (types 10, 11).
func (m *Meta) IsLowEntropy() bool { return isLowEntropyType(m.Type) }

// TypeName returns a short name of a protocol type.
func TypeName(t uint8) string {
	switch t {
	case TypeOpenReq:
		return "openSessionRequest"
	case TypeOpenResp:
		return "openSessionResponse"
	case TypeCloseReq:
		return "closeSessionRequest"
	case TypeCloseResp:
		return "closeSessionResponse"
	case TypeDataC2S:
		return "dataClientToServer"
	case TypeDataS2C:
		return "dataServerToClient"
	case TypeAckC2S:
		return "ackClientToServer"
	case TypeAckS2C:
		return "ackServerToClient"
	case TypeDataC2SLE:
		return "dataClientToServerLowEntropy"
	case TypeDataS2CLE:
		return "dataServerToClientLowEntropy"
	}
	return fmt.Sprintf("unknown(%d)", t)
}

// Marshal builds the 32 bytes from the fields according to Type. Unused bytes
// are zero (Byte1 is written as given). For an unknown Type only the five
// fields common to all layouts are written.
func (m *Meta) Marshal() [32]byte {
	var b [32]byte
	b[offType] = m.Type
	b[offByte1] = m.Byte1
	binary.BigEndian.PutUint32(b[offTimestamp:], m.TimestampMin)
	binary.BigEndian.PutUint32(b[offSessionID:], m.SessionID)
	binary.BigEndian.PutUint32(b[offSeq:], m.Seq)
	switch {
	case m.IsSession():
		b[offSessStatus] = m.Status
		binary.BigEndian.PutUint16(b[offSessPayloadLen:], m.PayloadLen)
		b[offSessSuffixLen] = m.SuffixLen
	case m.IsDataAck(), m.IsLowEntropy():
		binary.BigEndian.PutUint32(b[offDataUnAck:], m.UnAckSeq)
		binary.BigEndian.PutUint16(b[offDataWindow:], m.Window)
		b[offDataFragment] = m.Fragment
		b[offDataPrefixLen] = m.PrefixLen
		binary.BigEndian.PutUint16(b[offDataPayloadLen:], m.PayloadLen)
		b[offDataSuffixLen] = m.SuffixLen
		if m.IsLowEntropy() {
			binary.BigEndian.PutUint32(b[offLEMask:], m.LEMask)
			binary.BigEndian.PutUint16(b[offLEExtracted:], m.ExtractedLen)
			b[offLERotation] = m.LERotation
		}
	}
	return b
}

func anyNonZero(b []byte) bool {
	for _, x := range b {
		if x != 0 {
			return true
		}
	}
	return false
}

// ParseMeta decodes 32 plaintext metadata bytes. It fails for a wrong length
// or an unknown protocol type only; value checks are in Validate. Non-zero
// unused bytes are reported in UnusedNonZero. On an unknown type the returned
// Meta still carries the common fields and Raw.
func ParseMeta(b []byte) (Meta, error) {
	var m Meta
	if len(b) != MetaLen {
		return m, fmt.Errorf("%w: metadata is %d bytes, want %d", ErrShort, len(b), MetaLen)
	}
	copy(m.Raw[:], b)
	m.Type = b[offType]
	m.Byte1 = b[offByte1]
	m.TimestampMin = binary.BigEndian.Uint32(b[offTimestamp:])
	m.SessionID = binary.BigEndian.Uint32(b[offSessionID:])
	m.Seq = binary.BigEndian.Uint32(b[offSeq:])
	switch {
	case m.IsSession():
		m.Status = b[offSessStatus]
		m.PayloadLen = binary.BigEndian.Uint16(b[offSessPayloadLen:])
		m.SuffixLen = b[offSessSuffixLen]
		m.UnusedNonZero = b[offByte1] != 0 || anyNonZero(b[offSessUnused:])
	case m.IsDataAck(), m.IsLowEntropy():
		m.UnAckSeq = binary.BigEndian.Uint32(b[offDataUnAck:])
		m.Window = binary.BigEndian.Uint16(b[offDataWindow:])
		m.Fragment = b[offDataFragment]
		m.PrefixLen = b[offDataPrefixLen]
		m.PayloadLen = binary.BigEndian.Uint16(b[offDataPayloadLen:])
		m.SuffixLen = b[offDataSuffixLen]
		if m.IsLowEntropy() {
			m.LEMask = binary.BigEndian.Uint32(b[offLEMask:])
			m.ExtractedLen = binary.BigEndian.Uint16(b[offLEExtracted:])
			m.LERotation = b[offLERotation]
		} else {
			m.UnusedNonZero = b[offByte1] != 0 || anyNonZero(b[offDataUnused:])
		}
	default:
		return m, fmt.Errorf("%w: %d", ErrUnknownType, m.Type)
	}
	return m, nil
}

// Validate applies the value rules of the document to a parsed Meta:
// known type, session payload <= 1024, and for types 10/11 a valid mode,
// mask population, rotation and consistent encoded / extracted lengths.
// Non-zero unused bytes and the reserved session ID 0 are not errors.
func (m *Meta) Validate() error {
	switch {
	case m.IsSession():
		if m.PayloadLen > MaxSessionPayload {
			return fmt.Errorf("%w: session payload length %d > %d", ErrMetaInvalid, m.PayloadLen, MaxSessionPayload)
		}
	case m.IsDataAck():
	case m.IsLowEntropy():
		c, ok := LEModeSourceBytes(m.Byte1)
		if !ok {
			return fmt.Errorf("%w: low entropy mode %d", ErrMetaInvalid, m.Byte1)
		}
		if got, want := bits.OnesCount32(m.LEMask), c*4; got != want {
			return fmt.Errorf("%w: low entropy mask %#08x has %d one bits, mode %d needs %d", ErrMetaInvalid, m.LEMask, got, m.Byte1, want)
		}
		if !LEValidRotation(m.LERotation) {
			return fmt.Errorf("%w: low entropy rotation %#02x", ErrMetaInvalid, m.LERotation)
		}
		if m.PayloadLen%8 != 0 {
			return fmt.Errorf("%w: low entropy payload length %d is not a multiple of 8", ErrMetaInvalid, m.PayloadLen)
		}
		if want := LEEncodedLen(int(m.ExtractedLen), m.Byte1); int(m.PayloadLen) != want {
			return fmt.Errorf("%w: payload length %d but extracted length %d needs %d in mode %d", ErrMetaInvalid, m.PayloadLen, m.ExtractedLen, want, m.Byte1)
		}
	default:
		return fmt.Errorf("%w: %d", ErrUnknownType, m.Type)
	}
	return nil
}

// layout returns the lengths of padding 1, payload body and padding 2 that
// the metadata declares. The session layout has no padding 1.
func (m *Meta) layout() (prefix, body, suffix int) {
	if !m.IsSession() {
		prefix = int(m.PrefixLen)
	}
	return prefix, int(m.PayloadLen), int(m.SuffixLen)
}

// RestLen is the number of wire bytes that follow the encrypted metadata.
func (m *Meta) RestLen() int {
	p, b, s := m.layout()
	n := p + s
	if b > 0 {
		n += b + TagLen
	}
	return n
}

package refproto

import (
	"bytes"
	"crypto/hmac"
	"crypto/sha256"
	"encoding/binary"
	"encoding/hex"
	"testing"
)

func TestSlotOf(t *testing.T) {
	cases := []struct{ in, want int64 }{
		{0, 0}, {1, 0}, {59, 0}, {60, 120}, {61, 120}, {119, 120}, {120, 120},
		{179, 120}, {180, 240}, {239, 240}, {240, 240}, {299, 240}, {300, 360},
		{1700000000, 1700000040}, // 1700000000 = 14166666*120 + 80
		{1700000019, 1700000040}, // remainder 99
		{1699999979, 1699999920}, // remainder 59
		{1699999980, 1700000040}, // remainder 60: half rounds up
	}
	for _, c := range cases {
		if got := SlotOf(c.in); got != c.want {
			t.Errorf("SlotOf(%d) = %d, want %d", c.in, got, c.want)
		}
		if SlotOf(c.in)%120 != 0 {
			t.Errorf("SlotOf(%d) not a multiple of 120", c.in)
		}
	}
	cs := CandidateSlots(180)
	if cs != [3]int64{120, 240, 360} {
		t.Errorf("CandidateSlots(180) = %v", cs)
	}
}

func TestTimestampMin(t *testing.T) {
	for _, c := range []struct {
		in   int64
		want uint32
	}{{0, 0}, {59, 0}, {60, 1}, {119, 1}, {1700000000, 28333333}} {
		if got := TimestampMinOf(c.in); got != c.want {
			t.Errorf("TimestampMinOf(%d) = %d, want %d", c.in, got, c.want)
		}
	}
}

// pbkdf2ByHand is PBKDF2-HMAC-SHA256 for a single 32-byte output block,
// written directly from RFC 8018 with crypto/hmac.
func pbkdf2ByHand(password, salt []byte, iter int) []byte {
	mac := hmac.New(sha256.New, password)
	mac.Write(salt)
	mac.Write([]byte{0, 0, 0, 1})
	u := mac.Sum(nil)
	t := append([]byte(nil), u...)
	for i := 1; i < iter; i++ {
		mac = hmac.New(sha256.New, password)
		mac.Write(u)
		u = mac.Sum(nil)
		for j := range t {
			t[j] ^= u[j]
		}
	}
	return t
}

func TestKeyDerivationAgainstHandComputation(t *testing.T) {
	c := Cred{User: "alice", Password: "correct horse"}
	// hashedPassword = SHA-256(password || 0x00 || username)
	hpWant := sha256.Sum256([]byte("correct horse\x00alice"))
	hp := HashedPassword(c)
	if hp != hpWant {
		t.Fatalf("HashedPassword = %x, want %x", hp, hpWant)
	}
	// Order matters: it must not be username || 0x00 || password.
	if swapped := sha256.Sum256([]byte("alice\x00correct horse")); hp == swapped {
		t.Fatal("HashedPassword has the operands swapped")
	}
	for _, unix := range []int64{0, 59, 60, 1700000000, 1699999980} {
		slot := SlotOf(unix)
		var ts [8]byte
		binary.BigEndian.PutUint64(ts[:], uint64(slot))
		salt := sha256.Sum256(ts[:])
		want := pbkdf2ByHand(hpWant[:], salt[:], 64)
		got := KeyForSlot(hp, slot)
		if !bytes.Equal(got[:], want) {
			t.Errorf("KeyForSlot(slot %d) = %x, want %x", slot, got, want)
		}
		if k := KeyAt(c, unix); k != got {
			t.Errorf("KeyAt(%d) differs from KeyForSlot", unix)
		}
		// guard against off-by-one iteration counts
		if bytes.Equal(got[:], pbkdf2ByHand(hpWant[:], salt[:], 63)) || bytes.Equal(got[:], pbkdf2ByHand(hpWant[:], salt[:], 65)) {
			t.Errorf("iteration count is not distinguishing")
		}
	}
	// Neighbouring slots give different keys.
	if KeyForSlot(hp, 0) == KeyForSlot(hp, 120) {
		t.Error("slots 0 and 120 share a key")
	}
}

// The hand-written PBKDF2 itself is checked against a published vector
// (PBKDF2-HMAC-SHA256, "password"/"salt", 2 iterations, 32 bytes).
func TestHandPBKDF2Vector(t *testing.T) {
	want, _ := hex.DecodeString("ae4d0c95af6b46d32d0adff928f06dd02a303f8ef3c251dfd6e2d85a95474c43")
	if got := pbkdf2ByHand([]byte("password"), []byte("salt"), 2); !bytes.Equal(got, want) {
		t.Fatalf("pbkdf2ByHand = %x, want %x", got, want)
	}
}

func TestUserHint(t *testing.T) {
	var nonce [24]byte
	for i := range nonce {
		nonce[i] = byte(i * 7)
	}
	orig := nonce
	h := sha256.New()
	h.Write([]byte("bob"))
	h.Write(orig[:16])
	want := h.Sum(nil)[:4]

	got := UserHint("bob", nonce[:])
	if !bytes.Equal(got[:], want) {
		t.Fatalf("UserHint = %x, want %x", got, want)
	}
	if HintMatches("bob", nonce[:]) {
		t.Fatal("hint matches before it was applied")
	}
	ApplyUserHint("bob", nonce[:])
	if !bytes.Equal(nonce[:20], orig[:20]) {
		t.Fatal("ApplyUserHint changed bytes 0..19")
	}
	if !bytes.Equal(nonce[20:], want) {
		t.Fatalf("nonce[20:24] = %x, want %x", nonce[20:], want)
	}
	if !HintMatches("bob", nonce[:]) || HintMatches("carol", nonce[:]) {
		t.Fatal("HintMatches wrong")
	}
	// Bytes 16..19 are not part of the hash input.
	n2 := nonce
	n2[17] ^= 0xff
	if !HintMatches("bob", n2[:]) {
		t.Fatal("hint depends on nonce[16:20]")
	}
	n2 = nonce
	n2[15] ^= 0x01
	if HintMatches("bob", n2[:]) {
		t.Fatal("hint does not depend on nonce[15]")
	}
	if HintMatches("bob", nonce[:23]) {
		t.Fatal("short nonce matched")
	}
}

func TestIncrementNonce(t *testing.T) {
	var n [24]byte
	n[21], n[22], n[23] = 0xff, 0xff, 0xff
	IncrementNonce(&n)
	var want [24]byte
	want[20] = 1
	if n != want {
		t.Fatalf("carry: got %x", n)
	}
	for i := range n {
		n[i] = 0xff
	}
	IncrementNonce(&n)
	if n != [24]byte{} {
		t.Fatalf("wrap: got %x", n)
	}
	IncrementNonce(&n)
	want = [24]byte{}
	want[23] = 1
	if n != want {
		t.Fatalf("after wrap: got %x", n)
	}
}

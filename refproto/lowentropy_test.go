package refproto

import (
	"bytes"
	"encoding/binary"
	"errors"
	"math/bits"
	"math/rand"
	"testing"
)

func TestLEDocumentExample(t *testing.T) {
	src := []byte{0x12, 0x34, 0x56, 0x78}
	want0 := []byte{0x01, 0x02, 0x03, 0x04, 0x05, 0x06, 0x07, 0x08}
	want1 := []byte{0xf1, 0xf2, 0xf3, 0xf4, 0xf5, 0xf6, 0xf7, 0xf8}
	for pad, want := range [][]byte{want0, want1} {
		got, err := LEEncode(src, 1, 0x0f0f0f0f, 0, uint8(pad))
		if err != nil {
			t.Fatal(err)
		}
		if !bytes.Equal(got, want) {
			t.Fatalf("pad %d: got %x want %x", pad, got, want)
		}
		dec, pb, err := LEDecode(want, 4, 1, 0x0f0f0f0f, 0)
		if err != nil {
			t.Fatal(err)
		}
		if !bytes.Equal(dec, src) || pb != uint8(pad) {
			t.Fatalf("pad %d: decoded %x pad %d", pad, dec, pb)
		}
	}
}

func TestLEBasics(t *testing.T) {
	for mode, c := range map[uint8]int{1: 4, 2: 5, 3: 6, 4: 7} {
		got, ok := LEModeSourceBytes(mode)
		if !ok || got != c {
			t.Errorf("mode %d: %d %v", mode, got, ok)
		}
		if w, _ := LEMaskWeight(mode); w != c*4 {
			t.Errorf("mode %d weight %d", mode, w)
		}
		if LEEncodedLen(0, mode) != 0 || LEEncodedLen(1, mode) != 8 || LEEncodedLen(c, mode) != 8 || LEEncodedLen(c+1, mode) != 16 {
			t.Errorf("mode %d: LEEncodedLen", mode)
		}
	}
	for _, mode := range []uint8{0, 5, 32, 255} {
		if _, ok := LEModeSourceBytes(mode); ok {
			t.Errorf("mode %d accepted", mode)
		}
		if LEEncodedLen(10, mode) != -1 {
			t.Errorf("mode %d: LEEncodedLen", mode)
		}
	}
	if LEEncodedLen(32764, 1) != 65528 || LEEncodedLen(32768, 1) != 65536 {
		t.Error("mode 1 maximum")
	}
	valid := map[uint8]bool{0: true}
	for i := 1; i <= 15; i++ {
		valid[uint8(i)] = true
		valid[uint8(i*16)] = true
	}
	if len(valid) != 31 {
		t.Fatal("test bug")
	}
	for r := 0; r < 256; r++ {
		if LEValidRotation(uint8(r)) != valid[uint8(r)] {
			t.Errorf("LEValidRotation(%#02x) = %v", r, !valid[uint8(r)])
		}
	}
}

func TestLEChunkMask(t *testing.T) {
	const half = 0x000fffff
	const full = uint64(0x000fffff000fffff)
	if LEChunkMask(half, 0, 0) != full || LEChunkMask(half, 0, 99) != full {
		t.Fatal("rotation 0")
	}
	if LEChunkMask(half, 3, 0) != full || LEChunkMask(half, 0x30, 0) != full {
		t.Fatal("chunk 0 must use the mask unchanged")
	}
	// right by 1..15 = lower four bits
	if got, want := LEChunkMask(half, 1, 1), uint64(0x8007ffff8007ffff); got != want {
		t.Fatalf("right 1: %#x want %#x", got, want)
	}
	if got, want := LEChunkMask(half, 4, 2), uint64(0xff000fffff000fff); got != want {
		t.Fatalf("right 4 chunk 2: %#x want %#x", got, want)
	}
	// left = higher four bits
	if got, want := LEChunkMask(half, 0x10, 1), uint64(0x001ffffe001ffffe); got != want {
		t.Fatalf("left 1: %#x want %#x", got, want)
	}
	if got, want := LEChunkMask(half, 0x40, 3), uint64(0xfffff000fffff000); got != want {
		t.Fatalf("left 4 chunk 3: %#x want %#x", got, want)
	}
	if got, want := LEChunkMask(half, 0x40, 4), uint64(0xffff000fffff000f); got != want {
		t.Fatalf("left 4 chunk 4: %#x want %#x", got, want)
	}
	// always computed from the initial mask, so period 32/gcd
	if LEChunkMask(half, 5, 32) != full || LEChunkMask(half, 0x50, 64) != full {
		t.Fatal("period")
	}
	for i := 0; i < 1000; i++ {
		a := LEChunkMask(half, 7, i)
		if a != bits.RotateLeft64(full, -((7*i)%64)) {
			t.Fatal("right formula")
		}
		if bits.OnesCount64(a) != 40 {
			t.Fatal("population changed")
		}
	}
}

// A partial final chunk puts its bytes (big-endian) in the low-order source
// bits; selected positions above them carry the padding bit.
func TestLEPartialChunk(t *testing.T) {
	got, err := LEEncode([]byte{0x12, 0x34, 0x56, 0x78, 0xab}, 1, 0x0f0f0f0f, 0, 1)
	if err != nil {
		t.Fatal(err)
	}
	want := []byte{0xf1, 0xf2, 0xf3, 0xf4, 0xf5, 0xf6, 0xf7, 0xf8, 0xff, 0xff, 0xff, 0xff, 0xff, 0xff, 0xfa, 0xfb}
	if !bytes.Equal(got, want) {
		t.Fatalf("got %x want %x", got, want)
	}
	got, _ = LEEncode([]byte{0x12, 0x34, 0x56, 0x78, 0xab}, 1, 0x0f0f0f0f, 0, 0)
	want = []byte{1, 2, 3, 4, 5, 6, 7, 8, 0, 0, 0, 0, 0, 0, 0x0a, 0x0b}
	if !bytes.Equal(got, want) {
		t.Fatalf("got %x want %x", got, want)
	}
	// a selected but unused position with the wrong value is mixed padding
	bad := append([]byte(nil), want...)
	bad[13] = 0x01
	if _, _, err := LEDecode(bad, 5, 1, 0x0f0f0f0f, 0); !errors.Is(err, ErrLowEntropy) {
		t.Fatalf("unused selected position not checked: %v", err)
	}
}

func randMask(r *rand.Rand, weight int) uint32 {
	var m uint32
	for _, p := range r.Perm(32)[:weight] {
		m |= 1 << uint(p)
	}
	return m
}

func allRotations() []uint8 {
	rs := []uint8{0}
	for i := 1; i <= 15; i++ {
		rs = append(rs, uint8(i), uint8(i*16))
	}
	return rs
}

func leRoundTrip(t *testing.T, r *rand.Rand, n int, mode uint8, rot uint8, pad uint8) {
	t.Helper()
	w, _ := LEMaskWeight(mode)
	mask := randMask(r, w)
	body := make([]byte, n)
	r.Read(body)
	enc, err := LEEncode(body, mode, mask, rot, pad)
	if err != nil {
		t.Fatalf("n=%d mode=%d rot=%#x: %v", n, mode, rot, err)
	}
	if len(enc) != LEEncodedLen(n, mode) {
		t.Fatalf("n=%d mode=%d: encoded %d bytes", n, mode, len(enc))
	}
	// every non-selected position carries the padding bit
	for i := 0; i*8 < len(enc); i++ {
		wv := binary.BigEndian.Uint64(enc[i*8:])
		non := ^LEChunkMask(mask, rot, i)
		if pad == 0 && wv&non != 0 || pad == 1 && wv&non != non {
			t.Fatalf("n=%d mode=%d rot=%#x chunk %d: padding not uniform", n, mode, rot, i)
		}
	}
	dec, pb, err := LEDecode(enc, n, mode, mask, rot)
	if err != nil {
		t.Fatalf("n=%d mode=%d rot=%#x mask=%#x: %v", n, mode, rot, mask, err)
	}
	if !bytes.Equal(dec, body) {
		t.Fatalf("n=%d mode=%d rot=%#x mask=%#x: body differs", n, mode, rot, mask)
	}
	if pb != pad {
		t.Fatalf("n=%d mode=%d: pad bit %d want %d", n, mode, pb, pad)
	}
}

func TestLERoundTrips(t *testing.T) {
	r := rand.New(rand.NewSource(1))
	for mode := uint8(1); mode <= 4; mode++ {
		for _, rot := range allRotations() {
			for pad := uint8(0); pad <= 1; pad++ {
				for n := 1; n <= 200; n++ {
					leRoundTrip(t, r, n, mode, rot, pad)
				}
				big := MaxFragment
				if mode == 1 {
					big = MaxFragmentMode32
				}
				leRoundTrip(t, r, big, mode, rot, pad)
				if LEEncodedLen(big, mode) > 0xffff {
					t.Fatalf("mode %d: max fragment does not fit", mode)
				}
			}
		}
	}
	// empty body
	enc, err := LEEncode(nil, 3, 0x00ffffff, 0x20, 1)
	if err != nil || len(enc) != 0 {
		t.Fatal(enc, err)
	}
	dec, pb, err := LEDecode(nil, 0, 3, 0x00ffffff, 0x20)
	if err != nil || len(dec) != 0 || pb != 0 {
		t.Fatal(dec, pb, err)
	}
}

func TestLERejections(t *testing.T) {
	body := []byte("0123456789abcdefghij")
	type params struct {
		mode uint8
		mask uint32
		rot  uint8
	}
	ok := params{2, 0x0fffff00, 0x30}
	enc, err := LEEncode(body, ok.mode, ok.mask, ok.rot, 0)
	if err != nil {
		t.Fatal(err)
	}
	if _, _, err := LEDecode(enc, len(body), ok.mode, ok.mask, ok.rot); err != nil {
		t.Fatal(err)
	}
	// parameter errors, both directions
	for name, p := range map[string]params{
		"mode 0":        {0, ok.mask, ok.rot},
		"mode 5":        {5, ok.mask, ok.rot},
		"weight 19":     {2, 0x0ffffe00, ok.rot},
		"weight 21":     {2, 0x1fffff00, ok.rot},
		"weight 0":      {2, 0, ok.rot},
		"weight 32":     {4, 0xffffffff, ok.rot},
		"rotation 17":   {2, ok.mask, 17},
		"rotation 0x11": {2, ok.mask, 0x11},
		"rotation 0xff": {2, ok.mask, 0xff},
		"rotation 0x1f": {2, ok.mask, 0x1f},
	} {
		if _, err := LEEncode(body, p.mode, p.mask, p.rot, 0); !errors.Is(err, ErrLowEntropy) {
			t.Errorf("encode %s: %v", name, err)
		}
		if _, _, err := LEDecode(enc, len(body), p.mode, p.mask, p.rot); !errors.Is(err, ErrLowEntropy) {
			t.Errorf("decode %s: %v", name, err)
		}
	}
	if _, err := LEEncode(body, ok.mode, ok.mask, ok.rot, 2); !errors.Is(err, ErrLowEntropy) {
		t.Errorf("pad bit 2: %v", err)
	}
	// wrong lengths: 20 bytes in mode 2 are exactly 4 chunks
	for _, n := range []int{0, 15, 21, 25, -1} {
		if _, _, err := LEDecode(enc, n, ok.mode, ok.mask, ok.rot); !errors.Is(err, ErrLowEntropy) {
			t.Errorf("extracted length %d accepted: %v", n, err)
		}
	}
	for _, n := range []int{16, 17, 18, 19} {
		// same chunk count: the length is consistent, but the final chunk now
		// has selected positions that must be padding. Bytes of a random-ish
		// body make that fail unless they happen to be zero.
		if _, _, err := LEDecode(enc, n, ok.mode, ok.mask, ok.rot); err == nil {
			t.Logf("extracted length %d happened to decode", n)
		}
	}
	if _, _, err := LEDecode(enc[:len(enc)-1], len(body), ok.mode, ok.mask, ok.rot); !errors.Is(err, ErrLowEntropy) {
		t.Errorf("31 byte input: %v", err)
	}
	if _, _, err := LEDecode(enc[:24], len(body), ok.mode, ok.mask, ok.rot); !errors.Is(err, ErrLowEntropy) {
		t.Errorf("short input: %v", err)
	}
	if _, _, err := LEDecode(append(append([]byte(nil), enc...), make([]byte, 8)...), len(body), ok.mode, ok.mask, ok.rot); !errors.Is(err, ErrLowEntropy) {
		t.Errorf("long input: %v", err)
	}
	if _, _, err := LEDecode(make([]byte, 8), 0, ok.mode, ok.mask, ok.rot); !errors.Is(err, ErrLowEntropy) {
		t.Errorf("extracted 0 with a chunk: %v", err)
	}

	// mixed padding: flip each non-data bit of each chunk in turn
	for pad := uint8(0); pad <= 1; pad++ {
		enc, _ := LEEncode(body, ok.mode, ok.mask, ok.rot, pad)
		for i := 0; i*8 < len(enc); i++ {
			non := ^LEChunkMask(ok.mask, ok.rot, i)
			for p := 0; p < 64; p++ {
				bad := append([]byte(nil), enc...)
				wv := binary.BigEndian.Uint64(bad[i*8:]) ^ 1<<uint(p)
				binary.BigEndian.PutUint64(bad[i*8:], wv)
				dec, _, err := LEDecode(bad, len(body), ok.mode, ok.mask, ok.rot)
				if non>>uint(p)&1 == 1 {
					if !errors.Is(err, ErrLowEntropy) {
						t.Fatalf("pad %d chunk %d bit %d: flipped padding accepted", pad, i, p)
					}
				} else {
					// a data bit: decodes, to a different body
					if err != nil || bytes.Equal(dec, body) {
						t.Fatalf("pad %d chunk %d bit %d: data bit flip: %v", pad, i, p, err)
					}
				}
			}
		}
		// all padding inverted everywhere is canonical again (other pad bit)
		inv := append([]byte(nil), enc...)
		for i := 0; i*8 < len(inv); i++ {
			non := ^LEChunkMask(ok.mask, ok.rot, i)
			binary.BigEndian.PutUint64(inv[i*8:], binary.BigEndian.Uint64(inv[i*8:])^non)
		}
		dec, pb, err := LEDecode(inv, len(body), ok.mode, ok.mask, ok.rot)
		if err != nil || !bytes.Equal(dec, body) || pb != 1-pad {
			t.Fatalf("inverted padding: %v pad %d", err, pb)
		}
	}
}

func BenchmarkLEEncode32K(b *testing.B) {
	body := make([]byte, 32764)
	rand.New(rand.NewSource(2)).Read(body)
	b.SetBytes(int64(len(body)))
	for i := 0; i < b.N; i++ {
		if _, err := LEEncode(body, 1, 0x5555aaaa, 7, 1); err != nil {
			b.Fatal(err)
		}
	}
}

func BenchmarkLEDecode32K(b *testing.B) {
	body := make([]byte, 32764)
	rand.New(rand.NewSource(2)).Read(body)
	enc, _ := LEEncode(body, 1, 0x5555aaaa, 7, 1)
	b.SetBytes(int64(len(body)))
	for i := 0; i < b.N; i++ {
		if _, _, err := LEDecode(enc, len(body), 1, 0x5555aaaa, 7); err != nil {
			b.Fatal(err)
		}
	}
}

package refproto

import (
	"errors"
	"testing"
)

// Expected bytes are written by hand from the tables of the document.

func TestSessionMetaOffsets(t *testing.T) {
	m := Meta{
		Type: TypeOpenReq, TimestampMin: 0x01020304, SessionID: 0x11121314, Seq: 0x21222324,
		Status: 0x31, PayloadLen: 0x0321, SuffixLen: 0x51,
		// fields of other layouts must not leak into the session layout
		UnAckSeq: 0xdeadbeef, Window: 0xeeee, Fragment: 0xdd, PrefixLen: 0xcc, LEMask: 0xffffffff, ExtractedLen: 0xaaaa, LERotation: 0xbb,
	}
	want := [32]byte{
		0x02,                   // 0      protocol type
		0x00,                   // 1      unused
		0x01, 0x02, 0x03, 0x04, // 2..5   timestamp
		0x11, 0x12, 0x13, 0x14, // 6..9   session ID
		0x21, 0x22, 0x23, 0x24, // 10..13 sequence number
		0x31,       // 14     status code
		0x03, 0x21, // 15..16 payload length
		0x51,                                     // 17     suffix length
		0, 0, 0, 0, 0, 0, 0, 0, 0, 0, 0, 0, 0, 0, // 18..31 unused (14)
	}
	got := m.Marshal()
	if got != want {
		t.Fatalf("Marshal\n got %x\nwant %x", got, want)
	}
	p, err := ParseMeta(want[:])
	if err != nil {
		t.Fatal(err)
	}
	if p.Type != 2 || p.TimestampMin != 0x01020304 || p.SessionID != 0x11121314 || p.Seq != 0x21222324 ||
		p.Status != 0x31 || p.PayloadLen != 0x0321 || p.SuffixLen != 0x51 || p.Raw != want || p.UnusedNonZero {
		t.Fatalf("ParseMeta: %+v", p)
	}
	if p.UnAckSeq != 0 || p.Window != 0 || p.PrefixLen != 0 || p.LEMask != 0 {
		t.Fatalf("data fields set in a session meta: %+v", p)
	}
	if !p.IsSession() || p.IsDataAck() || p.IsLowEntropy() {
		t.Fatal("classification")
	}
	if err := p.Validate(); err != nil {
		t.Fatal(err)
	}
	if p.Marshal() != want {
		t.Fatal("round trip")
	}
	if a, b, c := p.layout(); a != 0 || b != 0x321 || c != 0x51 {
		t.Fatal("layout", a, b, c)
	}
	if p.RestLen() != 0x321+16+0x51 {
		t.Fatal("RestLen", p.RestLen())
	}
}

func TestDataMetaOffsets(t *testing.T) {
	m := Meta{
		Type: TypeAckS2C, TimestampMin: 0x01020304, SessionID: 0x11121314, Seq: 0x21222324,
		UnAckSeq: 0x31323334, Window: 0x4142, Fragment: 0x51, PrefixLen: 0x61, PayloadLen: 0x7172, SuffixLen: 0x81,
		Status: 0xee, LEMask: 0xffffffff, ExtractedLen: 0xaaaa, LERotation: 0xbb,
	}
	want := [32]byte{
		0x09,                   // 0      protocol type
		0x00,                   // 1      unused
		0x01, 0x02, 0x03, 0x04, // 2..5   timestamp
		0x11, 0x12, 0x13, 0x14, // 6..9   session ID
		0x21, 0x22, 0x23, 0x24, // 10..13 sequence number
		0x31, 0x32, 0x33, 0x34, // 14..17 unack sequence number
		0x41, 0x42, // 18..19 window size
		0x51,       // 20     fragment number
		0x61,       // 21     prefix length
		0x71, 0x72, // 22..23 payload length
		0x81,                // 24     suffix length
		0, 0, 0, 0, 0, 0, 0, // 25..31 unused (7)
	}
	if got := m.Marshal(); got != want {
		t.Fatalf("Marshal\n got %x\nwant %x", got, want)
	}
	p, err := ParseMeta(want[:])
	if err != nil {
		t.Fatal(err)
	}
	if p.Type != 9 || p.TimestampMin != 0x01020304 || p.SessionID != 0x11121314 || p.Seq != 0x21222324 ||
		p.UnAckSeq != 0x31323334 || p.Window != 0x4142 || p.Fragment != 0x51 || p.PrefixLen != 0x61 ||
		p.PayloadLen != 0x7172 || p.SuffixLen != 0x81 || p.Raw != want || p.UnusedNonZero || p.Status != 0 || p.LEMask != 0 {
		t.Fatalf("ParseMeta: %+v", p)
	}
	if p.IsSession() || !p.IsDataAck() || p.IsLowEntropy() {
		t.Fatal("classification")
	}
	if p.Marshal() != want {
		t.Fatal("round trip")
	}
	if p.RestLen() != 0x61+0x7172+16+0x81 {
		t.Fatal("RestLen", p.RestLen())
	}
	p.PayloadLen = 0
	if p.RestLen() != 0x61+0x81 {
		t.Fatal("RestLen without payload", p.RestLen())
	}
}

func TestLowEntropyMetaOffsets(t *testing.T) {
	m := Meta{
		Type: TypeDataC2SLE, Byte1: 2, TimestampMin: 0x01020304, SessionID: 0x11121314, Seq: 0x21222324,
		UnAckSeq: 0x31323334, Window: 0x4142, Fragment: 0x51, PrefixLen: 0x61, PayloadLen: 16, SuffixLen: 0x81,
		LEMask: 0x0f0f0fff, ExtractedLen: 10, LERotation: 0xa0,
	}
	want := [32]byte{
		0x0a,                   // 0      protocol type
		0x02,                   // 1      low entropy mode
		0x01, 0x02, 0x03, 0x04, // 2..5   timestamp
		0x11, 0x12, 0x13, 0x14, // 6..9   session ID
		0x21, 0x22, 0x23, 0x24, // 10..13 sequence number
		0x31, 0x32, 0x33, 0x34, // 14..17 unack sequence number
		0x41, 0x42, // 18..19 window size
		0x51,       // 20     fragment number
		0x61,       // 21     prefix length
		0x00, 0x10, // 22..23 payload length
		0x81,                   // 24     suffix length
		0x0f, 0x0f, 0x0f, 0xff, // 25..28 low entropy mask
		0x00, 0x0a, // 29..30 extracted payload length
		0xa0, // 31     low entropy mask rotation
	}
	if got := m.Marshal(); got != want {
		t.Fatalf("Marshal\n got %x\nwant %x", got, want)
	}
	p, err := ParseMeta(want[:])
	if err != nil {
		t.Fatal(err)
	}
	if p.Type != 10 || p.Byte1 != 2 || p.LEMask != 0x0f0f0fff || p.ExtractedLen != 10 || p.LERotation != 0xa0 ||
		p.PayloadLen != 16 || p.PrefixLen != 0x61 || p.SuffixLen != 0x81 || p.UnAckSeq != 0x31323334 || p.UnusedNonZero {
		t.Fatalf("ParseMeta: %+v", p)
	}
	if p.IsSession() || p.IsDataAck() || !p.IsLowEntropy() {
		t.Fatal("classification")
	}
	if err := p.Validate(); err != nil {
		t.Fatal(err)
	}
	if p.Marshal() != want {
		t.Fatal("round trip")
	}
}

func TestMetaRoundTripAllTypes(t *testing.T) {
	for typ := uint8(TypeOpenReq); typ <= TypeDataS2CLE; typ++ {
		m := Meta{Type: typ, TimestampMin: 28333333, SessionID: 7, Seq: 9, Status: 3, UnAckSeq: 5, Window: 256,
			Fragment: 1, PrefixLen: 2, PayloadLen: 8, SuffixLen: 4}
		if isLowEntropyType(typ) {
			m.Byte1, m.LEMask, m.ExtractedLen, m.LERotation = 1, 0x0000ffff, 4, 3
		}
		raw := m.Marshal()
		p, err := ParseMeta(raw[:])
		if err != nil {
			t.Fatalf("type %d: %v", typ, err)
		}
		if p.Marshal() != raw || p.Raw != raw {
			t.Fatalf("type %d: round trip", typ)
		}
		if err := p.Validate(); err != nil {
			t.Fatalf("type %d: %v", typ, err)
		}
		if TypeName(typ) == "" {
			t.Fatal("no name")
		}
	}
}

func TestParseMetaStrict(t *testing.T) {
	for _, typ := range []uint8{0, 1, 12, 13, 0x80, 0xff} {
		m := Meta{Type: typ, SessionID: 5}
		raw := m.Marshal()
		p, err := ParseMeta(raw[:])
		if !errors.Is(err, ErrUnknownType) {
			t.Errorf("type %d: err = %v", typ, err)
		}
		if p.Raw != raw || p.SessionID != 5 {
			t.Errorf("type %d: Raw / common fields not kept", typ)
		}
		if !errors.Is(p.Validate(), ErrUnknownType) {
			t.Errorf("type %d: Validate accepted", typ)
		}
	}
	if _, err := ParseMeta(make([]byte, 31)); err == nil {
		t.Error("31 bytes accepted")
	}
	if _, err := ParseMeta(make([]byte, 33)); err == nil {
		t.Error("33 bytes accepted")
	}
}

func TestUnusedNonZero(t *testing.T) {
	check := func(typ uint8, idx int, want bool) {
		t.Helper()
		m := Meta{Type: typ}
		if isLowEntropyType(typ) {
			m.Byte1, m.LEMask = 1, 0xffff0000
		}
		raw := m.Marshal()
		if idx >= 0 {
			raw[idx] |= 0x40
		}
		p, err := ParseMeta(raw[:])
		if err != nil {
			t.Fatal(err)
		}
		if p.UnusedNonZero != want {
			t.Errorf("type %d byte %d: UnusedNonZero = %v, want %v", typ, idx, p.UnusedNonZero, want)
		}
	}
	check(TypeOpenReq, -1, false)
	check(TypeOpenReq, 1, true)
	check(TypeOpenReq, 17, false)
	for i := 18; i < 32; i++ {
		check(TypeCloseResp, i, true)
	}
	check(TypeDataC2S, -1, false)
	check(TypeDataC2S, 1, true)
	check(TypeDataC2S, 24, false)
	for i := 25; i < 32; i++ {
		check(TypeAckC2S, i, true)
	}
	// the low entropy layout has no unused byte
	for i := 0; i < 32; i++ {
		if i == 0 {
			continue
		}
		check(TypeDataS2CLE, i, false)
	}
}

func TestValidate(t *testing.T) {
	bad := func(name string, m Meta) {
		t.Helper()
		if err := m.Validate(); !errors.Is(err, ErrMetaInvalid) {
			t.Errorf("%s: err = %v", name, err)
		}
	}
	good := func(name string, m Meta) {
		t.Helper()
		if err := m.Validate(); err != nil {
			t.Errorf("%s: %v", name, err)
		}
	}
	good("session 1024", Meta{Type: TypeOpenReq, PayloadLen: 1024})
	bad("session 1025", Meta{Type: TypeOpenReq, PayloadLen: 1025})
	bad("session 1025 close", Meta{Type: TypeCloseResp, PayloadLen: 1025})
	good("data 65535", Meta{Type: TypeDataC2S, PayloadLen: 65535})

	le := Meta{Type: TypeDataC2SLE, Byte1: 1, LEMask: 0x0f0f0f0f, PayloadLen: 16, ExtractedLen: 5}
	good("le ok", le)
	x := le
	x.Byte1 = 0
	bad("mode 0", x)
	x = le
	x.Byte1 = 5
	bad("mode 5", x)
	x = le
	x.LEMask = 0x0f0f0f0e
	bad("weight 15", x)
	x = le
	x.LEMask = 0x0f0f0f1f
	bad("weight 17", x)
	x = le
	x.Byte1 = 2 // weight 16 but mode 2 wants 20
	bad("weight for other mode", x)
	x = le
	x.LERotation = 17
	bad("rotation 17", x)
	x = le
	x.LERotation = 0xff
	bad("rotation ff", x)
	x = le
	x.LERotation = 0xf0
	good("rotation f0", x)
	x = le
	x.LERotation = 0x0f
	good("rotation 0f", x)
	x = le
	x.PayloadLen = 12
	bad("payload len not multiple of 8", x)
	x = le
	x.PayloadLen = 24
	bad("payload len too long", x)
	x = le
	x.PayloadLen = 8
	bad("payload len too short", x)
	x = le
	x.ExtractedLen = 0
	bad("extracted 0 with payload", x)
	x = le
	x.PayloadLen = 0
	bad("payload 0 with extracted", x)
	x = le
	x.PayloadLen, x.ExtractedLen = 0, 0
	good("both zero", x)
	x.LEMask = 0
	bad("both zero but bad mask", x)
	// largest mode 1 fragment fits, one more does not exist in 16 bits
	good("32764 mode 1", Meta{Type: TypeDataS2CLE, Byte1: 1, LEMask: 0xffff0000, ExtractedLen: 32764, PayloadLen: 65528})
	good("32768 mode 2", Meta{Type: TypeDataS2CLE, Byte1: 2, LEMask: 0xfffff000, ExtractedLen: 32768, PayloadLen: 52432})
}

#!/bin/sh
# MANIFEST.setup_cmd: build the framework offline from files on disk only.
cd /verif || exit 2
. ./env.sh
mkdir -p bin build evidence replays
"$VERIF_GO" build -o bin/vsim ./cmd/vsim || exit 2
exec ./bin/vsim setup

#!/bin/sh
# MANIFEST.setup_cmd: build the framework offline from files on disk only.
cd "$(dirname "$0")" || exit 2
VERIF_ROOT="$(pwd)"; export VERIF_ROOT
. ./env.sh
mkdir -p bin build evidence replays
"$VERIF_GO" build -o bin/vsim ./cmd/vsim || exit 2
exec ./bin/vsim setup

// Package overlay generates the `go build -overlay` file used by every check:
//
//  1. patched copies of six Go runtime files (DESIGN.md Appendix A) that put
//     all program-visible runtime randomness behind one seeded stream and make
//     mutex waits durable inside a synctest bubble;
//  2. copies of /repo/pkg/socks5/*.go whose only change is that the import
//     "net" is replaced by the simulated package verifsim/vnet.
//
// Nothing under GOROOT or /repo is modified; the overlay lives in the build
// directory and is regenerated from the current trees on every check.
package overlay

import (
	"crypto/sha256"
	"encoding/hex"
	"encoding/json"
	"fmt"
	"os"
	"path/filepath"
	"sort"
	"strings"
)

type edit struct {
	old, new string
	count    int
}

const verifRuntimeAppend = `
var verifSim uint64

//go:nosplit
func verifNext() uint64 {
	verifSim += 0x9e3779b97f4a7c15
	z := verifSim
	z = (z ^ (z >> 30)) * 0xbf58476d1ce4e5b9
	z = (z ^ (z >> 27)) * 0x94d049bb133111eb
	z = z ^ (z >> 31)
	if verifSim == 0 {
		verifSim = 1
	}
	return z
}

//go:nosplit
func verifCheaprand() uint32 {
	if verifSim != 0 {
		return uint32(verifNext() >> 32)
	}
	return cheaprand()
}

//go:nosplit
func verifCheaprandn(n uint32) uint32 {
	return uint32((uint64(verifCheaprand()) * uint64(n)) >> 32)
}

// VerifSetSeed switches the runtime to the seeded stream.
func VerifSetSeed(s uint64) {
	if s == 0 {
		s = 1
	}
	verifSim = s
}
`

// runtimeEdits lists file -> edits (+ text to append).
var runtimeEdits = []struct {
	rel    string
	edits  []edit
	append string
}{
	{"runtime/runtime2.go", []edit{
		{"\twaitReasonSleep:                 true,\n", "\twaitReasonSleep:                 true,\n\twaitReasonSyncMutexLock:         true,\n\twaitReasonSyncRWMutexRLock:      true,\n\twaitReasonSyncRWMutexLock:       true,\n", 1},
	}, ""},
	{"runtime/rand.go", []edit{
		{"\tseed := &globalRand.seed\n\tif len(startupRand) >= 16 &&", "\tseed := &globalRand.seed\n\tfor i := range seed {\n\t\tseed[i] = byte(i*37 + 11)\n\t}\n\tif false && len(startupRand) >= 16 &&", 1},
		{"\t} else {\n\t\tif readRandom(seed[:]) != len(seed) || allZero(seed[:]) {", "\t} else if false {\n\t\tif readRandom(seed[:]) != len(seed) || allZero(seed[:]) {", 1},
		{"func rand() uint64 {\n", "func rand() uint64 {\n\tif verifSim != 0 {\n\t\treturn verifNext()\n\t}\n", 1},
	}, verifRuntimeAppend},
	{"runtime/select.go", []edit{
		{"j := cheaprandn(uint32(norder + 1))", "j := verifCheaprandn(uint32(norder + 1))", 1},
	}, ""},
	{"runtime/time.go", []edit{
		{"t.rand = cheaprand()", "t.rand = verifCheaprand()", 1},
	}, ""},
	{"runtime/proc.go", []edit{
		{"func retake(now int64) uint32 {\n\tn := 0\n", "func retake(now int64) uint32 {\n\tif verifSim != 0 {\n\t\treturn 0\n\t}\n\tn := 0\n", 1},
		{"j := cheaprandn(i + 1)", "j := verifCheaprandn(i + 1)", 2},
	}, ""},
	{"internal/sync/mutex.go", []edit{
		{"starvationThresholdNs = 1e6", "starvationThresholdNs = 1 << 62", 1},
	}, ""},
}

// Generate writes the overlay JSON to outDir/overlay.json and returns its path.
// goroot is the root of the go1.26.8 installation; repo is the mieru tree;
// vnetImport is the import path that replaces "net" in pkg/socks5 ("" = skip).
func Generate(goroot, repo, outDir, vnetImport string) (string, error) {
	if err := os.MkdirAll(filepath.Join(outDir, "rt"), 0o755); err != nil {
		return "", err
	}
	if err := os.MkdirAll(filepath.Join(outDir, "socks5"), 0o755); err != nil {
		return "", err
	}
	replace := map[string]string{}
	for _, f := range runtimeEdits {
		src := filepath.Join(goroot, "src", f.rel)
		b, err := os.ReadFile(src)
		if err != nil {
			return "", fmt.Errorf("overlay: %w", err)
		}
		s := string(b)
		for _, e := range f.edits {
			if c := strings.Count(s, e.old); c != e.count {
				return "", fmt.Errorf("overlay: %s: anchor %q found %d times, want %d (toolchain differs from go1.26.8?)", f.rel, e.old, c, e.count)
			}
			s = strings.ReplaceAll(s, e.old, e.new)
		}
		s += f.append
		dst := filepath.Join(outDir, "rt", strings.ReplaceAll(f.rel, "/", "_"))
		if err := writeIfChanged(dst, []byte(s)); err != nil {
			return "", err
		}
		replace[src] = dst
	}
	if vnetImport != "" {
		dir := filepath.Join(repo, "pkg", "socks5")
		ents, err := os.ReadDir(dir)
		if err != nil {
			return "", fmt.Errorf("overlay: %w", err)
		}
		// remove stale copies
		old, _ := os.ReadDir(filepath.Join(outDir, "socks5"))
		keep := map[string]bool{}
		for _, e := range ents {
			name := e.Name()
			if e.IsDir() || !strings.HasSuffix(name, ".go") || strings.HasSuffix(name, "_test.go") {
				continue
			}
			src := filepath.Join(dir, name)
			b, err := os.ReadFile(src)
			if err != nil {
				return "", err
			}
			s := string(b)
			n := strings.Count(s, "\t\"net\"\n")
			if n > 1 {
				return "", fmt.Errorf("overlay: %s imports net %d times", src, n)
			}
			if n == 1 {
				s = strings.Replace(s, "\t\"net\"\n", "\tnet \""+vnetImport+"\"\n", 1)
			} else if strings.Contains(s, "import \"net\"\n") {
				s = strings.Replace(s, "import \"net\"\n", "import net \""+vnetImport+"\"\n", 1)
			} else {
				continue // file does not import net: no overlay entry needed
			}
			dst := filepath.Join(outDir, "socks5", name)
			if err := writeIfChanged(dst, []byte(s)); err != nil {
				return "", err
			}
			keep[name] = true
			replace[src] = dst
		}
		for _, e := range old {
			if !keep[e.Name()] {
				os.Remove(filepath.Join(outDir, "socks5", e.Name()))
			}
		}
	}
	keys := make([]string, 0, len(replace))
	for k := range replace {
		keys = append(keys, k)
	}
	sort.Strings(keys)
	ordered := map[string]string{}
	for _, k := range keys {
		ordered[k] = replace[k]
	}
	js, _ := json.MarshalIndent(map[string]any{"Replace": ordered}, "", " ")
	p := filepath.Join(outDir, "overlay.json")
	if err := writeIfChanged(p, js); err != nil {
		return "", err
	}
	return p, nil
}

func writeIfChanged(path string, b []byte) error {
	if old, err := os.ReadFile(path); err == nil {
		if sha256.Sum256(old) == sha256.Sum256(b) {
			return nil
		}
	}
	return os.WriteFile(path, b, 0o644)
}

// Hash returns a short content hash of a file (for evidence/replay headers).
func Hash(path string) string {
	b, err := os.ReadFile(path)
	if err != nil {
		return ""
	}
	h := sha256.Sum256(b)
	return hex.EncodeToString(h[:8])
}

# Spike script used for the measurements in DESIGN.md Appendix B (generates the GOROOT overlay of Appendix A
# into /tmp/spike2). Kept as a record of the exact edits; the real generator will be written with the framework.
import json,os
G='/opt/veriftools/go1.26.8/src'
out='/tmp/spike2/rt'
rep={}
def patch(rel, edits, append=''):
    s=open(G+'/'+rel).read()
    for o,n,c in edits:
        assert s.count(o)==c, (rel,o,s.count(o))
        s=s.replace(o,n)
    s+=append
    p=out+'/'+rel.replace('/','_')
    open(p,'w').write(s)
    rep[G+'/'+rel]=p
patch('runtime/runtime2.go',[('\twaitReasonSleep:                 true,\n','\twaitReasonSleep:                 true,\n\twaitReasonSyncMutexLock:         true,\n\twaitReasonSyncRWMutexRLock:      true,\n\twaitReasonSyncRWMutexLock:       true,\n',1)])
patch('runtime/rand.go',[
 ('\tseed := &globalRand.seed\n\tif len(startupRand) >= 16 &&','\tseed := &globalRand.seed\n\tfor i := range seed {\n\t\tseed[i] = byte(i*37 + 11)\n\t}\n\tif false && len(startupRand) >= 16 &&',1),
 ('\t} else {\n\t\tif readRandom(seed[:]) != len(seed) || allZero(seed[:]) {','\t} else if false {\n\t\tif readRandom(seed[:]) != len(seed) || allZero(seed[:]) {',1),
 ('func rand() uint64 {\n','func rand() uint64 {\n\tif verifSim != 0 {\n\t\treturn verifNext()\n\t}\n',1)],
 '''
var verifSim uint64

//go:nosplit
func verifNext() uint64 {
	verifSim += 0x9e3779b97f4a7c15
	z := verifSim
	z = (z ^ (z >> 30)) * 0xbf58476d1ce4e5b9
	z = (z ^ (z >> 27)) * 0x94d049bb133111eb
	z = z ^ (z >> 31)
	if verifSim == 0 {
		verifSim = 1
	}
	return z
}

//go:nosplit
func verifCheaprand() uint32 {
	if verifSim != 0 {
		return uint32(verifNext() >> 32)
	}
	return cheaprand()
}

//go:nosplit
func verifCheaprandn(n uint32) uint32 {
	return uint32((uint64(verifCheaprand()) * uint64(n)) >> 32)
}

func VerifSetSeed(s uint64) {
	if s == 0 {
		s = 1
	}
	verifSim = s
}
''')
patch('runtime/select.go',[('j := cheaprandn(uint32(norder + 1))','j := verifCheaprandn(uint32(norder + 1))',1)])
patch('runtime/time.go',[('t.rand = cheaprand()','t.rand = verifCheaprand()',1)])
patch('runtime/proc.go',[('func retake(now int64) uint32 {\n\tn := 0\n','func retake(now int64) uint32 {\n\tif verifSim != 0 {\n\t\treturn 0\n\t}\n\tn := 0\n',1),('j := cheaprandn(i + 1)','j := verifCheaprandn(i + 1)',2)])
patch('internal/sync/mutex.go',[('starvationThresholdNs = 1e6','starvationThresholdNs = 1 << 62',1)])
json.dump({'Replace':rep},open('/tmp/spike2/overlay_rt.json','w'),indent=1)
print(len(rep))

package main

import (
	"encoding/hex"
	"fmt"

	"verifsim/simnet"
	"verifsim/spec"
)

// Generators turn (property, VERIF_SEED, run index, tier) into an explicit
// RunSpec, swarm style: every run draws its own sizes, workload mix, traffic
// patterns, link parameters, fault profile and start phase.

func pI32(v int) *int32 { x := int32(v); return &x }
func pB(v bool) *bool   { return &v }

var leRotations = func() []int {
	r := []int{0}
	for i := 1; i <= 15; i++ {
		r = append(r, i)
	}
	for i := 1; i <= 15; i++ {
		r = append(r, i*16)
	}
	return r
}()

func genPattern(r *simnet.Rng, tcp bool, rich bool) *spec.Pattern {
	if r.Bool(0.12) {
		return nil
	}
	p := &spec.Pattern{}
	if r.Bool(0.6) {
		p.Seed = pI32(r.Intn(1 << 30))
	}
	if r.Bool(0.5) {
		p.UnlockAll = pB(r.Bool(0.5))
	}
	if tcp && r.Bool(0.5) {
		p.FragEnable = pB(r.Bool(0.6))
		if r.Bool(0.7) {
			p.FragMaxSleepMs = pI32(r.Pick(0, 0, 1, 3, 10))
		}
	} else if r.Bool(0.3) {
		// keep implicit fragmentation sleeps from dominating virtual time
		p.FragEnable = pB(false)
	}
	if r.Bool(0.6) {
		p.NonceType = pI32(r.Intn(4))
		if *p.NonceType == 3 && r.Bool(0.85) {
			n := 1 + r.Intn(3)
			for i := 0; i < n; i++ {
				l := r.Pick(0, 1, 4, 8, 12, 12, r.Intn(13))
				b := make([]byte, l)
				for j := range b {
					b[j] = byte(r.Intn(256))
				}
				p.NonceHex = append(p.NonceHex, hex.EncodeToString(b))
			}
		}
	}
	if r.Bool(0.5) {
		p.NonceApplyAll = pB(r.Bool(0.5))
	}
	if r.Bool(0.5) {
		p.NonceMinLen = pI32(r.Pick(0, 1, 6, 12, r.Intn(13)))
	}
	if r.Bool(0.5) {
		lo := 0
		if p.NonceMinLen != nil {
			lo = int(*p.NonceMinLen)
		}
		p.NonceMaxLen = pI32(lo + r.Intn(13-lo))
		if r.Bool(0.3) {
			p.NonceMaxLen = pI32(lo) // minLen == maxLen
		}
	}
	if r.Bool(0.6) {
		p.PadMid = pI32(r.Pick(0, 0, 1, 255, 255, r.Intn(256)))
	}
	if r.Bool(0.6) {
		p.PadEnd = pI32(r.Pick(0, 0, 1, 255, 255, r.Intn(256)))
	}
	if rich && r.Bool(0.55) {
		p.LEMode = pI32(r.Intn(5))
		if r.Bool(0.8) {
			p.LERot = pI32(leRotations[r.Intn(len(leRotations))])
		}
	}
	return p
}

var boundarySizes = []int{0, 1, 2, 7, 1023, 1024, 1025, 1312, 1400, 4095, 4096, 32763, 32764, 32765, 32767, 32768, 32769, 65536}

func genSize(r *simnet.Rng, maxBytes int) int {
	var n int
	switch r.Intn(10) {
	case 0, 1, 2, 3:
		n = boundarySizes[r.Intn(len(boundarySizes))]
	case 4, 5:
		n = 1 + r.Intn(2000)
	case 6, 7:
		n = 1 + r.Intn(70000)
	case 8:
		n = 1 + r.Intn(maxBytes)
	default:
		n = 1 + r.Intn(300)
	}
	if n > maxBytes {
		n = maxBytes
	}
	return n
}

func genScript(r *simnet.Rng, budget int, minWrites int) spec.Script {
	var sc spec.Script
	nw := minWrites + r.Intn(6)
	if r.Bool(0.15) {
		nw = minWrites
	}
	left := budget
	for i := 0; i < nw && left > 0; i++ {
		n := genSize(r, left)
		if i == 0 && minWrites > 0 && n == 0 {
			n = 1
		}
		sc.Writes = append(sc.Writes, n)
		left -= n
	}
	ng := 1 + r.Intn(3)
	for i := 0; i < ng; i++ {
		sc.GapsUs = append(sc.GapsUs, int64(r.Pick(1, 1, 10, 100, 1000, 20000, r.Intn(50000)+1)))
	}
	nb := 1 + r.Intn(3)
	for i := 0; i < nb; i++ {
		sc.ReadBufs = append(sc.ReadBufs, r.Pick(1, 2, 7, 1024, 4096, 32768, 32768, 65536, 1<<20, 1+r.Intn(5000)))
	}
	sc.ReadGapUs = int64(r.Pick(1, 1, 1, 50, 1000))
	return sc
}

// limitReads keeps the number of application Read calls bounded: a 1-byte
// buffer against a large transfer would make hundreds of thousands of calls.
func limitReads(sc *spec.Script, incoming int) {
	minBuf := incoming/3000 + 1
	for i, b := range sc.ReadBufs {
		if b < minBuf {
			sc.ReadBufs[i] = minBuf
		}
	}
}

func sum(xs []int) int {
	t := 0
	for _, x := range xs {
		t += x
	}
	return t
}

func genUsers(r *simnet.Rng, n int) []spec.User {
	var us []spec.User
	for i := 0; i < n; i++ {
		name := fmt.Sprintf("user%d-%x", i, r.Intn(1<<16))
		if r.Bool(0.3) {
			// names up to the documented maximum of 64 bytes (the user hint hashes name || nonce[:16])
			for l := r.Pick(47, 48, 49, 50, 63, 64, 12+r.Intn(52)); len(name) < l; {
				name += string(rune('a' + len(name)%26))
			}
		}
		us = append(us, spec.User{Name: name, Password: fmt.Sprintf("pw-%x-%d", r.U64(), i)})
	}
	return us
}

// genStartOffset picks the phase of the run relative to the key slot (changes
// at 60 s + k*120 s) and the minute tick (k*60 s). The bubble epoch is a
// multiple of 120 s.
func genStartOffset(r *simnet.Rng) int64 {
	const sec = int64(1000000)
	switch r.Intn(6) {
	case 0:
		return int64(r.Intn(240)) * sec
	case 1: // just before a slot change / minute tick
		return int64(60+120*r.Intn(2))*sec - int64(r.Pick(1, 1000, 200000, 900000, 3000000))
	case 2: // just after
		return int64(60+120*r.Intn(2))*sec + int64(r.Pick(0, 1, 1000, 500000))
	case 3: // minute tick that is not a slot change
		return int64(120)*sec - int64(r.Pick(1, 1000, 300000, 2000000))
	default:
		return int64(r.Intn(240*1000)) * 1000
	}
}

type streamGenOpts struct {
	transport   string // "tcp" | "udp"
	maxBytes    int    // per run
	maxSessions int
	closeMode   string
	faults      string // "none" | profile name
	liveness    bool
	rich        bool // low-entropy etc.
}

func genStreamSpec(prop string, seed uint64, o streamGenOpts) *spec.RunSpec {
	r := simnet.NewRng(seed, "gen-"+prop)
	s := &spec.RunSpec{Property: prop, Scenario: "stream", Seed: seed, VirtualCapS: 900}
	s.StartOffsetUs = genStartOffset(r)
	tcp := o.transport == "tcp"
	nUsers := 1 + r.Intn(3)
	s.Server = spec.Server{Users: genUsers(r, nUsers), IP: "10.0.0.1", Pattern: genPattern(r, tcp, o.rich), HintMandatory: r.Bool(0.3)}
	if tcp {
		s.Server.TCPPort = 5000 + r.Intn(1000)
	} else {
		s.Server.UDPPort = 6000 + r.Intn(1000)
		s.Server.MTU = r.Pick(1280, 1281, 1400, 1499, 1500, 1280+r.Intn(221))
	}
	nClients := 1 + r.Intn(3)
	if r.Bool(0.5) {
		nClients = 1
	}
	totalSess := 1 + r.Intn(o.maxSessions)
	budget := o.maxBytes
	for ci := 0; ci < nClients; ci++ {
		c := spec.Client{IP: fmt.Sprintf("10.0.1.%d", ci+1), User: r.Intn(nUsers), Transport: o.transport, Pattern: genPattern(r, tcp, o.rich), Multiplex: r.Pick(0, 1, 2, 3, 3, 3), NoWait: r.Bool(0.4)}
		if !tcp {
			c.MTU = r.Pick(1280, 1281, 1400, 1499, 1500, 1280+r.Intn(221))
		}
		s.Clients = append(s.Clients, c)
	}
	for k := 0; k < totalSess; k++ {
		ci := r.Intn(nClients)
		c := &s.Clients[ci]
		per := budget / (totalSess - k)
		if per < 2 {
			per = 2
		}
		share := 1 + r.Intn(per)
		if r.Bool(0.3) {
			share = per
		}
		cb := share / 2
		if r.Bool(0.5) {
			cb = r.Intn(share + 1)
		}
		se := spec.Session{ID: len(c.Sessions), StartUs: int64(r.Pick(0, 0, 1, 1000, 50000, r.Intn(2000000))), CloseMode: o.closeMode, Closer: []string{"client", "server"}[r.Intn(2)]}
		se.C2S = genScript(r, max(cb, 1), 1)
		se.S2C = genScript(r, max(share-cb, 0), 0)
		limitReads(&se.S2C, sum(se.C2S.Writes)) // server reads what the client wrote
		limitReads(&se.C2S, sum(se.S2C.Writes))
		budget -= sum(se.C2S.Writes) + sum(se.S2C.Writes)
		if budget < 2 {
			budget = 2
		}
		se.CloseDelayUs = int64(r.Pick(1, 50, 1000, 100000))
		c.Sessions = append(c.Sessions, se)
	}
	// drop clients without sessions
	var keep []spec.Client
	for _, c := range s.Clients {
		if len(c.Sessions) > 0 {
			keep = append(keep, c)
		}
	}
	s.Clients = keep
	for i := range s.Clients {
		s.Clients[i].IP = fmt.Sprintf("10.0.1.%d", i+1)
	}
	s.Net = spec.Net{
		LatencyUs: int64(r.Pick(100, 500, 2000, 10000, 40000, 1+r.Intn(80000))),
	}
	if r.Bool(0.5) {
		s.Net.JitterUs = int64(r.Intn(int(s.Net.LatencyUs) + 1))
	}
	if tcp {
		s.Net.ChunkMode = r.Pick(0, 1, 1, 1, 3)
		if sumAll(s) <= 20000 && r.Bool(0.3) {
			s.Net.ChunkMode = 2 // one byte per read: every field boundary is a chunk boundary
		}
		s.Net.DribbleHead = r.Pick(0, 0, 100, 300, 2000)
		s.Net.RecvBuf = r.Pick(0, 0, 1024, 4096, 65536, 1<<20)
		if r.Bool(0.25) {
			s.Net.BytesPerSec = int64(r.Pick(50000, 500000, 5000000))
		}
		// Keep the link fast enough for the scripted volume: sessions multiplexed on one
		// connection queue behind each other, and a handshake that waits more than 10 s
		// behind somebody else's bulk transfer times out - a property of a slow link, not
		// of the stream. The whole volume must fit into about 3 virtual seconds.
		total := int64(sumAll(s))
		for iter := 0; iter < 8; iter++ {
			rtt := 2 * (s.Net.LatencyUs + s.Net.JitterUs)
			buf := int64(s.Net.RecvBuf)
			if buf == 0 {
				buf = 256 << 10
			}
			tput := buf * 1000000 / (rtt + 1) // bytes per second allowed by the window
			if s.Net.BytesPerSec > 0 && s.Net.BytesPerSec < tput {
				tput = s.Net.BytesPerSec
			}
			if total*1000000/(tput+1) <= 3000000 {
				break
			}
			switch {
			case s.Net.BytesPerSec > 0 && s.Net.BytesPerSec <= tput:
				s.Net.BytesPerSec *= 10
				if s.Net.BytesPerSec > 50000000 {
					s.Net.BytesPerSec = 0
				}
			case s.Net.RecvBuf > 0 && s.Net.RecvBuf < 1<<20:
				s.Net.RecvBuf *= 16
			default:
				s.Net.LatencyUs = s.Net.LatencyUs/4 + 1
				s.Net.JitterUs /= 4
			}
		}
	}
	if sr := simnet.NewRng(seed, "gen-slowreader-"+prop); o.closeMode == "barrier" && sr.Bool(0.12) {
		// Slow consumer: one direction of one session is written as thousands of small
		// segments (more than a session's receive queue of 4096 holds) while the reading
		// application does not read for several seconds; afterwards everything must arrive.
		c := &s.Clients[sr.Intn(len(s.Clients))]
		se := &c.Sessions[sr.Intn(len(c.Sessions))]
		// a side's script holds what it writes and how it reads: the reader of what wr
		// writes is the other side, rd
		wr, rd := &se.C2S, &se.S2C
		if sr.Bool(0.5) {
			wr, rd = &se.S2C, &se.C2S
		}
		n := sr.Pick(4200, 4600, 5200)
		wr.Writes = nil
		for i := 0; i < n; i++ {
			wr.Writes = append(wr.Writes, sr.Pick(1, 1, 2, 7, 16))
		}
		wr.GapsUs = []int64{1}
		rd.ReadDelayUs = int64(sr.Pick(2500000, 5000000, 9000000))
		rd.ReadBufs = []int{65536}
		s.Profile += "+slow-reader"
		// thousands of segments of ~100 wire bytes each: on a throttled link they would queue
		// ahead of other sessions' handshakes for longer than the client's 10 s SOCKS timeout
		s.Net.BytesPerSec = 0
		if s.Liveness != nil {
			s.Liveness.BoundUs += 60000000
		}
	}
	switch prop {
	case "C01", "C02", "C03", "C13", "C14", "C16":
		// a third of the runs take their connections straight from the multiplexers, where
		// the application's first write rides on the open-session request
		s.Server.RawMux = simnet.NewRng(seed, "gen-rawmux-"+prop).Bool(0.35)
	}
	return s
}

func sumAll(s *spec.RunSpec) int {
	t := 0
	for _, c := range s.Clients {
		for _, se := range c.Sessions {
			t += sum(se.C2S.Writes) + sum(se.S2C.Writes)
		}
	}
	return t
}

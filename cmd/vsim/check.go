package main

import (
	"encoding/json"
	"fmt"
	"os"
	"path/filepath"
	"runtime"
	"sort"
	"strconv"
	"strings"
	"sync"
	"time"

	"verifsim/internal/overlay"
	"verifsim/simnet"
	"verifsim/spec"
)

type propDef struct {
	id           string
	level        string
	quickRuns    int
	thoroughRuns int
	wallPerRun   time.Duration
	gen          func(master uint64, idx int, tier string) *spec.RunSpec
	enumerate    func(bin string, master uint64, tier string) ([]*spec.RunSpec, []string) // optional: enumerated part (fault_enumeration); second result = harness problems
	race         bool
	raceFrames   string // if set: only data races whose report mentions this package path count for the property
	rule         string
	assumptions  []string
	components   map[string]string // real vs stub
	extra        func(ev map[string]any, results []*runRec)
}

type runRec struct {
	idx  int
	spec *spec.RunSpec
	res  *spec.RunResult
}

var props = map[string]*propDef{}

var detPairs, detDiverged int

func register(p *propDef) { props[p.id] = p }

func parseFlags(args []string) (pos []string, flags map[string]string) {
	flags = map[string]string{}
	for i := 0; i < len(args); i++ {
		a := args[i]
		if strings.HasPrefix(a, "--") {
			k := strings.TrimPrefix(a, "--")
			if eq := strings.Index(k, "="); eq >= 0 {
				flags[k[:eq]] = k[eq+1:]
			} else if i+1 < len(args) && !strings.HasPrefix(args[i+1], "--") {
				flags[k] = args[i+1]
				i++
			} else {
				flags[k] = "true"
			}
		} else {
			pos = append(pos, a)
		}
	}
	return
}

func masterSeed(flags map[string]string) uint64 {
	if v, ok := flags["seed"]; ok {
		n, _ := strconv.ParseUint(v, 10, 64)
		return n
	}
	if v := os.Getenv("VERIF_SEED"); v != "" {
		if n, err := strconv.ParseUint(v, 10, 64); err == nil {
			return n
		}
		if n, err := strconv.ParseInt(v, 10, 64); err == nil {
			return uint64(n)
		}
	}
	return 1
}

func workers() int {
	n := runtime.NumCPU()
	if v := os.Getenv("VSIM_WORKERS"); v != "" {
		if k, err := strconv.Atoi(v); err == nil && k > 0 {
			n = k
		}
	}
	return n
}

// runAll executes specs on a worker pool, preserving order in the result.
func runAll(bin string, specs []*spec.RunSpec, wall time.Duration, deadline time.Time) []*runRec {
	out := make([]*runRec, len(specs))
	var wg sync.WaitGroup
	ch := make(chan int)
	for k := 0; k < workers(); k++ {
		wg.Add(1)
		go func() {
			defer wg.Done()
			for i := range ch {
				if !deadline.IsZero() && time.Now().After(deadline) {
					continue
				}
				out[i] = &runRec{idx: i, spec: specs[i], res: execRun(bin, specs[i], wall)}
			}
		}()
	}
	for i := range specs {
		ch <- i
	}
	close(ch)
	wg.Wait()
	var done []*runRec
	for _, r := range out {
		if r != nil {
			done = append(done, r)
		}
	}
	return done
}

type finding struct {
	Property string `json:"property"`
	Class    string `json:"class"`
	What     string `json:"what"`
}

type fixedEntry struct {
	Property string `json:"property"`
	Commit   string `json:"commit"`
	What     string `json:"what"`
}

type knownFile struct {
	Findings []finding    `json:"findings"`
	Fixed    []fixedEntry `json:"fixed"`
}

func loadKnown() knownFile {
	var k knownFile
	b, err := os.ReadFile(filepath.Join(verifRoot, "known_findings.json"))
	if err == nil {
		json.Unmarshal(b, &k)
	}
	return k
}

func (k knownFile) match(prop, class string) *finding {
	for i := range k.Findings {
		f := &k.Findings[i]
		if f.Property == prop && f.Class == class {
			return f
		}
	}
	return nil
}

func violationsOf(p string, r *spec.RunResult) []spec.Violation {
	var vs []spec.Violation
	for _, v := range r.Violations {
		if v.Property == p {
			vs = append(vs, v)
		}
	}
	if r.Crash != "" {
		vs = append(vs, spec.Violation{Property: p, Class: "crash:" + r.Crash, Detail: r.Crash})
	}
	return vs
}

func cmdCheck(args []string) int {
	pos, flags := parseFlags(args)
	if len(pos) < 1 {
		usage()
	}
	id := pos[0]
	p := props[id]
	if p == nil {
		fmt.Fprintf(os.Stderr, "unknown property %s\n", id)
		return 2
	}
	tier := flags["tier"]
	if tier == "" {
		tier = os.Getenv("VERIF_TIER")
	}
	if tier != "thorough" {
		tier = "quick"
	}
	master := masterSeed(flags)
	t0 := time.Now()
	fmt.Printf("vsim check %s tier=%s VERIF_SEED=%d workers=%d\n", id, tier, master, workers())
	bin, err := buildSim(false)
	if err != nil {
		fmt.Fprintln(os.Stderr, "BUILD-PROBLEM:", err)
		return 2
	}
	buildS := time.Since(t0).Seconds()

	n := p.quickRuns
	if tier == "thorough" {
		n = p.thoroughRuns
	}
	if v, ok := flags["runs"]; ok {
		n, _ = strconv.Atoi(v)
	}
	var specs []*spec.RunSpec
	enumerated := 0
	var enumProblems []string
	if p.enumerate != nil {
		var es []*spec.RunSpec
		es, enumProblems = p.enumerate(bin, master, tier)
		specs = append(specs, es...)
		enumerated = len(specs)
	}
	if p.gen != nil {
		for i := 0; i < n; i++ {
			specs = append(specs, p.gen(master, i, tier))
		}
	}
	// Regression specs: minimised replays of violations that were rare in the random search
	// (kept under regress/<id>-*.json) are part of every run of the check, in both tiers.
	if files, _ := filepath.Glob(filepath.Join(verifRoot, "regress", p.id+"-*.json")); len(files) > 0 {
		sort.Strings(files)
		for _, f := range files {
			b, err := os.ReadFile(f)
			if err != nil {
				enumProblems = append(enumProblems, "regress: "+err.Error())
				continue
			}
			rs := &spec.RunSpec{}
			if err := json.Unmarshal(b, rs); err != nil || rs.Scenario == "" {
				enumProblems = append(enumProblems, fmt.Sprintf("regress: %s is not a run spec (%v)", f, err))
				continue
			}
			rs.Property = p.id
			rs.Profile = "regress:" + filepath.Base(f)
			specs = append(specs, rs)
		}
	}
	var deadline time.Time
	if v, ok := flags["budget"]; ok {
		if d, err := time.ParseDuration(v); err == nil {
			deadline = time.Now().Add(d)
		}
	}
	recs := runAll(bin, specs, p.wallPerRun, deadline)
	// determinism spot check: re-run a few specs and compare event-log hashes
	// (a divergence is a harness bug: exit 2, never a verdict)
	detPairs, detDiverged = 0, 0
	if len(recs) > 0 {
		k := min(4, len(recs))
		var again []*spec.RunSpec
		for i := 0; i < k; i++ {
			again = append(again, recs[i*len(recs)/k].spec)
		}
		second := runAll(bin, again, p.wallPerRun, deadline)
		for i, r := range second {
			first := recs[i*len(recs)/k].res
			if first.EventHash == "" && r.res.EventHash == "" {
				continue
			}
			detPairs++
			if first.EventHash != r.res.EventHash || first.Events != r.res.Events {
				detDiverged++
				enumProblems = append(enumProblems, fmt.Sprintf("determinism: run seed %d produced event hashes %s/%d and %s/%d", r.spec.Seed, first.EventHash, first.Events, r.res.EventHash, r.res.Events))
			}
		}
	}
	if p.race {
		rbin, err := buildSim(true)
		if err != nil {
			fmt.Fprintln(os.Stderr, "BUILD-PROBLEM (race):", err)
			return 2
		}
		k := len(specs) / 6
		if k < 8 {
			k = min(8, len(specs))
		}
		rr := runAll(rbin, specs[:k], p.wallPerRun*4, deadline)
		for _, r := range rr {
			if p.raceFrames != "" && strings.HasPrefix(r.res.Crash, "DATA RACE") && !strings.Contains(r.res.Info["stderr"], p.raceFrames) {
				// a race elsewhere is another property's business (C15 runs unfiltered)
				r.res.Notes = append(r.res.Notes, spec.Violation{Property: "C15", Class: "data-race-elsewhere", Detail: r.res.Crash})
				r.res.Crash = ""
			}
			r.res.Info = merge(r.res.Info, map[string]string{"race-build": "true"})
		}
		recs = append(recs, rr...)
	}
	return finishCheck(p, tier, master, recs, enumerated, t0, buildS, bin, enumProblems)
}

func merge(a, b map[string]string) map[string]string {
	if a == nil {
		a = map[string]string{}
	}
	for k, v := range b {
		a[k] = v
	}
	return a
}

func finishCheck(p *propDef, tier string, master uint64, recs []*runRec, enumerated int, t0 time.Time, buildS float64, bin string, pre []string) int {
	known := loadKnown()
	harness := append([]string{}, pre...)
	type vrec struct {
		rec *runRec
		v   spec.Violation
	}
	bySig := map[string][]vrec{}
	knownHits := map[string]int{}
	for _, r := range recs {
		for _, h := range r.res.Harness {
			harness = append(harness, fmt.Sprintf("run %d seed %d: %s", r.idx, r.spec.Seed, h))
		}
		for _, v := range violationsOf(p.id, r.res) {
			if f := known.match(p.id, v.Class); f != nil {
				knownHits[v.Class]++
				continue
			}
			bySig[v.Class] = append(bySig[v.Class], vrec{r, v})
		}
	}
	exit := 0
	// known findings: one line each, never affect the exit code
	kk := make([]string, 0, len(knownHits))
	for k := range knownHits {
		kk = append(kk, k)
	}
	sort.Strings(kk)
	for _, k := range kk {
		f := known.match(p.id, k)
		fmt.Printf("KNOWN-FINDING: property=%s %s [class %s, seen in %d runs]\n", p.id, f.What, k, knownHits[k])
	}
	// new violations
	sigs := make([]string, 0, len(bySig))
	for k := range bySig {
		sigs = append(sigs, k)
	}
	sort.Strings(sigs)
	replayDir := filepath.Join(verifRoot, "replays")
	os.MkdirAll(replayDir, 0o755)
	nviol := 0
	for _, sig := range sigs {
		vs := bySig[sig]
		nviol += len(vs)
		first := vs[0]
		// prefer the smallest spec among the failing runs as the starting point
		for _, c := range vs {
			if specWeight(c.rec.spec) < specWeight(first.rec.spec) {
				first = c
			}
		}
		minSpec, verified, tries := minimise(bin, first.rec.spec, p.id, sig, p.wallPerRun)
		path := filepath.Join(replayDir, fmt.Sprintf("%s-%d-%s.json", p.id, first.rec.spec.Seed, shortHash(sig)))
		writeReplay(path, p.id, sig, first.v, first.rec.spec, minSpec, verified, tries, tier)
		fmt.Printf("VIOLATION property=%s replay=%s\n", p.id, path)
		fmt.Printf("  class: %s (%d of %d runs)\n  first: %s\n", sig, len(vs), len(recs), first.v.Detail)
		exit = 1
	}
	writeEvidence(p, tier, master, recs, enumerated, t0, buildS, nviol, knownHits, harness)
	if len(harness) > 0 {
		for i, h := range harness {
			if i < 10 {
				fmt.Println("HARNESS-PROBLEM:", h)
			}
		}
		if exit == 0 {
			exit = 2
		}
	}
	noteCount := map[string]int{}
	for _, r := range recs {
		for _, nv := range r.res.Notes {
			noteCount[nv.Property+"/"+nv.Class]++
		}
	}
	if len(noteCount) > 0 {
		fmt.Printf("notes (other properties' oracles, informational): %v\n", noteCount)
	}
	fmt.Printf("vsim check %s: %d runs, %d violations, %d known-finding hits, %d harness problems, %.1fs\n", p.id, len(recs), nviol, sumInts(knownHits), len(harness), time.Since(t0).Seconds())
	return exit
}

func sumInts(m map[string]int) int {
	t := 0
	for _, v := range m {
		t += v
	}
	return t
}

func shortHash(s string) string {
	return fmt.Sprintf("%08x", uint32(simnet.HS(s)))
}

func specWeight(s *spec.RunSpec) int {
	w := 0
	for _, c := range s.Clients {
		for _, se := range c.Sessions {
			w += 1000 + len(se.C2S.Writes) + len(se.S2C.Writes) + (sum(se.C2S.Writes)+sum(se.S2C.Writes))/1000
		}
	}
	return w
}

type replayFile struct {
	Property       string         `json:"property"`
	Signature      string         `json:"signature"`
	Detail         string         `json:"detail"`
	RunSeed        uint64         `json:"runSeed"`
	Tier           string         `json:"tier"`
	RepoHead       string         `json:"repoHead"`
	RepoDirty      string         `json:"repoDirtyHash"`
	Toolchain      string         `json:"toolchain"`
	Hostname       string         `json:"hostname"`
	ReplayVerified bool           `json:"replay_verified"`
	MinimiseTries  int            `json:"minimiseTries"`
	Spec           *spec.RunSpec  `json:"spec"`         // minimised
	Original       *spec.RunSpec  `json:"originalSpec"` // as generated
	Observed       spec.Violation `json:"observed"`
}

func writeReplay(path, prop, sig string, v spec.Violation, orig, min *spec.RunSpec, verified bool, tries int, tier string) {
	host, _ := os.Hostname()
	rf := replayFile{Property: prop, Signature: sig, Detail: v.Detail, RunSeed: orig.Seed, Tier: tier,
		RepoHead: gitOut(repoRoot, "rev-parse", "HEAD"), RepoDirty: shortHash(gitOut(repoRoot, "diff", "HEAD")),
		Toolchain: "go1.26.8+overlay", Hostname: host, ReplayVerified: verified, MinimiseTries: tries, Spec: min, Original: orig, Observed: v}
	b, _ := json.MarshalIndent(rf, "", " ")
	os.WriteFile(path, b, 0o644)
}

func cmdReplay(args []string) int {
	pos, _ := parseFlags(args)
	if len(pos) < 1 {
		usage()
	}
	b, err := os.ReadFile(pos[0])
	if err != nil {
		fmt.Fprintln(os.Stderr, err)
		return 2
	}
	var rf replayFile
	if err := json.Unmarshal(b, &rf); err != nil || rf.Spec == nil {
		fmt.Fprintln(os.Stderr, "not a replay file:", err)
		return 2
	}
	bin, err := buildSim(false)
	if err != nil {
		fmt.Fprintln(os.Stderr, "BUILD-PROBLEM:", err)
		return 2
	}
	wall := 5 * time.Minute
	res := execRun(bin, rf.Spec, wall)
	for _, v := range violationsOf(rf.Property, res) {
		if v.Class == rf.Signature {
			fmt.Printf("VIOLATION property=%s replay=%s\n  class: %s\n  detail: %s\n  eventHash=%s events=%d\n", rf.Property, pos[0], v.Class, v.Detail, res.EventHash, res.Events)
			return 1
		}
	}
	fmt.Printf("replay did not reproduce %s/%s; result: violations=%v crash=%q harness=%v\n", rf.Property, rf.Signature, res.Violations, res.Crash, res.Harness)
	return 0
}

func cmdRunSpec(args []string) int {
	pos, flags := parseFlags(args)
	if len(pos) < 1 {
		usage()
	}
	b, err := os.ReadFile(pos[0])
	if err != nil {
		fmt.Fprintln(os.Stderr, err)
		return 2
	}
	var s spec.RunSpec
	if err := json.Unmarshal(b, &s); err != nil {
		fmt.Fprintln(os.Stderr, err)
		return 2
	}
	if flags["log"] == "true" {
		s.KeepLog = true
	}
	bin, err := buildSim(flags["race"] == "true")
	if err != nil {
		fmt.Fprintln(os.Stderr, err)
		return 2
	}
	res := execRun(bin, &s, 10*time.Minute)
	out, _ := json.MarshalIndent(res, "", " ")
	fmt.Println(string(out))
	return 0
}

func cmdGen(args []string) int {
	pos, flags := parseFlags(args)
	if len(pos) < 2 {
		usage()
	}
	p := props[pos[0]]
	if p == nil {
		return 2
	}
	idx, _ := strconv.Atoi(pos[1])
	tier := flags["tier"]
	if tier == "" {
		tier = "quick"
	}
	var s *spec.RunSpec
	if flags["enum"] == "true" && p.enumerate != nil {
		bin, err := buildSim(false)
		if err != nil {
			return 2
		}
		all, _ := p.enumerate(bin, masterSeed(flags), tier)
		if idx < len(all) {
			s = all[idx]
		}
	} else if p.gen != nil {
		s = p.gen(masterSeed(flags), idx, tier)
	}
	b, _ := json.MarshalIndent(s, "", " ")
	fmt.Println(string(b))
	return 0
}

func cmdSetup(args []string) int {
	t0 := time.Now()
	if _, err := overlay.Generate(goRoot, repoRoot, filepath.Join(buildDir(), "overlay"), vnetImport()); err != nil {
		fmt.Fprintln(os.Stderr, "SETUP-PROBLEM:", err)
		return 2
	}
	if _, err := buildSim(false); err != nil {
		fmt.Fprintln(os.Stderr, "SETUP-PROBLEM:", err)
		return 2
	}
	fmt.Printf("setup: sim binary built in %.1fs\n", time.Since(t0).Seconds())
	// smoke: determinism on a handful of seeds
	if rc := cmdSelftest([]string{"--seeds", "6"}); rc != 0 {
		return rc
	}
	fmt.Printf("setup ok in %.1fs\n", time.Since(t0).Seconds())
	return 0
}

// cmdSelftest runs N seeds twice at worker counts 1 and 16 and compares the
// event-log hashes. A divergence is a harness bug: exit 2, never a VIOLATION.
func cmdSelftest(args []string) int {
	_, flags := parseFlags(args)
	n := 24
	if v, ok := flags["seeds"]; ok {
		n, _ = strconv.Atoi(v)
	}
	bin, err := buildSim(false)
	if err != nil {
		fmt.Fprintln(os.Stderr, "BUILD-PROBLEM:", err)
		return 2
	}
	pairs, diverged := determinismPairs(bin, n, masterSeed(flags))
	fmt.Printf("determinism: %d pairs checked, %d diverged\n", pairs, diverged)
	if diverged > 0 {
		return 2
	}
	return 0
}

func determinismPairs(bin string, n int, master uint64) (pairs, diverged int) {
	var specs []*spec.RunSpec
	ids := []string{"C01", "C02", "C03"}
	for i := 0; i < n; i++ {
		p := props[ids[i%len(ids)]]
		if p == nil || p.gen == nil {
			continue
		}
		specs = append(specs, p.gen(master^0xdead, i, "quick"))
	}
	if len(specs) == 0 {
		return 0, 0
	}
	a := runAll(bin, specs, 3*time.Minute, time.Time{})
	os.Setenv("VSIM_WORKERS", "1")
	few := specs
	if len(few) > 4 {
		few = few[:4]
	}
	b1 := runAll(bin, few, 3*time.Minute, time.Time{})
	os.Unsetenv("VSIM_WORKERS")
	b := runAll(bin, specs, 3*time.Minute, time.Time{})
	for i := range a {
		pairs++
		if a[i].res.EventHash != b[i].res.EventHash || a[i].res.Events != b[i].res.Events || a[i].res.EventHash == "" {
			diverged++
			fmt.Printf("DIVERGED %s seed %d: %s/%d vs %s/%d crash=%q harness=%v\n", specs[i].Property, specs[i].Seed, a[i].res.EventHash, a[i].res.Events, b[i].res.EventHash, b[i].res.Events, a[i].res.Crash, a[i].res.Harness)
		}
	}
	for i := range b1 {
		pairs++
		if a[i].res.EventHash != b1[i].res.EventHash {
			diverged++
			fmt.Printf("DIVERGED (1 worker) %s seed %d\n", specs[i].Property, specs[i].Seed)
		}
	}
	return
}

package main

import (
	"time"

	"verifsim/simnet"
	"verifsim/spec"
)

func genReplayCacheHistory(seed uint64, tier string) *spec.RunSpec {
	r := simnet.NewRng(seed, "rc-hist")
	s := &spec.RunSpec{Property: "C06", Scenario: "history", Seed: seed, VirtualCapS: 0, Profile: "c06-cache-history"}
	capN := r.Pick(1, 2, 3, 4, 8)
	interval := int64(r.Pick(1, 2, 10, 60, 360, 600)) * 1000000
	h := &spec.History{Kind: "replaycache", Cap: capN, IntervalUs: interval}
	items := 2 + r.Intn(2*capN+2)
	n := 20 + r.Intn(120)
	for i := 0; i < n; i++ {
		switch r.Intn(5) {
		case 0, 1:
			// sleeps straddling interval and 2 x interval
			d := []int64{1, interval / 10, interval / 2, interval - 1000, interval, interval + 1000, 2*interval - 1000, 2 * interval, 2*interval + 1000, 3 * interval}[r.Intn(10)]
			h.Ops = append(h.Ops, spec.HOp{Op: "sleep", SleepUs: d})
		default:
			h.Ops = append(h.Ops, spec.HOp{Op: "dup", Item: r.Intn(items), Tag: r.Pick(0, 0, 1, 1, 2)})
		}
	}
	if r.Bool(0.5) {
		// Directed histories: bursts of new entries that fill the cache to about its capacity
		// right before / right after an instant at which a generation can expire, a short
		// sleep across that instant, a few more new entries, then the recent ones again.
		s.Profile = "c06-cache-history-boundary"
		h.Ops = nil
		var T, lastBurst int64
		fresh := 1000
		for phase, phases := 0, 3+r.Intn(6); phase < phases; phase++ {
			base := (T/interval + 1) * interval
			if r.Bool(0.4) && lastBurst+interval > T {
				base = lastBurst + interval
			}
			off := int64(r.Pick(-2000, -1000, -1000, -1, 1, 1000, int(interval/10)))
			if r.Bool(0.2) {
				off -= interval / 2
			}
			if d := base + off - T; d > 0 {
				h.Ops = append(h.Ops, spec.HOp{Op: "sleep", SleepUs: d})
				T += d
			}
			lastBurst = T
			k := capN + r.Pick(-1, 0, 0, 1, 2)
			var burst []int
			for i := 0; i < k; i++ {
				burst = append(burst, fresh)
				h.Ops = append(h.Ops, spec.HOp{Op: "dup", Item: fresh, Tag: r.Pick(0, 0, 1)})
				fresh++
			}
			if d := int64(r.Pick(0, 1, 1000, 2000, 3000, int(interval/10))); d > 0 {
				h.Ops = append(h.Ops, spec.HOp{Op: "sleep", SleepUs: d})
				T += d
			}
			for i, n := 0, r.Intn(3); i < n; i++ {
				h.Ops = append(h.Ops, spec.HOp{Op: "dup", Item: fresh, Tag: r.Pick(0, 0, 1)})
				fresh++
			}
			for i, n := 0, 1+r.Intn(2); i < n && len(burst) > 0; i++ {
				it := burst[len(burst)-1-r.Intn(min(len(burst), 2))]
				h.Ops = append(h.Ops, spec.HOp{Op: "dup", Item: it, Tag: r.Pick(0, 0, 2)})
			}
		}
	}
	s.Hist = h
	return s
}

func genCounterHistory(seed uint64, tier string) *spec.RunSpec {
	r := simnet.NewRng(seed, "counter-hist")
	s := &spec.RunSpec{Property: "C19", Scenario: "history", Seed: seed, Profile: "c19-counter-history"}
	h := &spec.History{Kind: "counter"}
	n := 1100 + r.Intn(2500)
	if tier == "thorough" {
		n = 1100 + r.Intn(9000)
	}
	sec := int64(1000000)
	gaps := []int64{1, 10, 500, 999, 1000, 1001, 100000, sec, 2 * sec, 3 * sec, 61 * sec, 121 * sec, 3601 * sec, 7201 * sec, 86401 * sec, 8 * 86400 * sec, 9 * 86400 * sec, 30 * 86400 * sec}
	big := r.Bool(0.5)
	for i := 0; i < n; i++ {
		switch k := r.Intn(20); {
		case k < 8:
			h.Ops = append(h.Ops, spec.HOp{Op: "add", Delta: int64(r.Pick(0, 1, 1, 100, 65536, 1<<20, 1+r.Intn(5000))), Count: r.Pick(1, 1, 1, 2, 7)})
		case k < 13:
			g := gaps[r.Intn(len(gaps))]
			if !big && g > 7201*sec {
				g = gaps[r.Intn(12)]
			}
			h.Ops = append(h.Ops, spec.HOp{Op: "sleep", SleepUs: g})
		case k < 16:
			h.Ops = append(h.Ops, spec.HOp{Op: "load"})
		case k < 19:
			from := gaps[r.Intn(len(gaps))]
			to := int64(0)
			if r.Bool(0.4) {
				to = gaps[r.Intn(len(gaps))]
			}
			h.Ops = append(h.Ops, spec.HOp{Op: "window", FromUs: from, ToUs: to})
		default:
			if r.Bool(0.5) {
				h.Ops = append(h.Ops, spec.HOp{Op: "restart"})
			} else {
				h.Ops = append(h.Ops, spec.HOp{Op: "dump"}, spec.HOp{Op: "reload", Cut: r.Pick(0, 0, 0, 1, 5, 40)})
			}
		}
	}
	s.Hist = h
	return s
}

func init() {
	// C06: cache histories are added to the C06 check as a second generator.
	c06 := props["C06"]
	endToEnd := c06.gen
	c06.gen = func(master uint64, idx int, tier string) *spec.RunSpec {
		// three cheap cache histories for every end-to-end run
		if idx%4 != 0 {
			return genReplayCacheHistory(runSeed(master, "C06h", idx), tier)
		}
		return endToEnd(master, idx/4, tier)
	}
	c06.quickRuns = 384
	c06.thoroughRuns = 8000
	// The process-wide caches are called from every underlay's reader goroutine. The simulator
	// runs on one P, so a missing lock cannot corrupt anything here; a sixth of the runs is
	// repeated under the race detector instead and any race inside pkg/replay counts.
	c06.race, c06.raceFrames = true, "pkg/replay"
	_ = time.Second
}

// genQuotaSpec: C19 end to end. Phase 1 moves a chosen amount of traffic for a
// user with a quota; phase 2 opens new sessions for that user and for others.
func genQuotaSpec(seed uint64, tier string) *spec.RunSpec {
	r := simnet.NewRng(seed, "quota")
	tr := []string{"tcp", "tcp", "udp"}[r.Intn(3)]
	s := &spec.RunSpec{Property: "C19", Scenario: "stream", Seed: seed, VirtualCapS: 1500, Profile: "c19-quota-" + tr}
	s.StartOffsetUs = genStartOffset(r)
	users := genUsers(r, 3)
	mb := r.Pick(1, 1, 2)
	users[0].Quotas = []spec.Quota{{Days: r.Pick(1, 1, 7, 30), Megabytes: mb}}
	if r.Bool(0.3) {
		users[0].Quotas = append(users[0].Quotas, spec.Quota{Days: 30, Megabytes: r.Pick(100, 2047, 4096, 1<<20, 2147483647)})
	}
	if r.Bool(0.5) {
		// another user with a generous allowance (the field is an int32 count of megabytes): never refused
		users[2].Quotas = []spec.Quota{{Days: r.Pick(1, 30), Megabytes: r.Pick(500, 2046, 2047, 2048, 4095, 4096, 10240, 102400, 2147483647)}}
	}
	s.Server = spec.Server{Users: users, IP: "10.0.0.1"}
	if tr == "tcp" {
		s.Server.TCPPort = 5300
	} else {
		s.Server.UDPPort = 6300
		s.Server.MTU = 1400
	}
	// target volume of phase 1 for user 0
	limitLo := mb * 1000000
	limitHi := (mb + 1) * 1048576
	target := []int{limitLo / 3, limitLo - 70000, limitLo - 2000, (limitLo + limitHi) / 2, limitHi - 2000, limitHi + 3000, limitHi + 70000, limitHi + 400000}[r.Intn(8)]
	mkClient := func(ci, user int) spec.Client {
		c := spec.Client{IP: "10.0.1." + string(rune('1'+ci)), User: user, Transport: tr, Multiplex: r.Pick(0, 1, 3), NoWait: r.Bool(0.5)}
		if tr == "udp" {
			c.MTU = 1400
		}
		if r.Bool(0.3) {
			c.Pattern = &spec.Pattern{PadMid: pI32(0), PadEnd: pI32(r.Pick(0, 30))}
		}
		return c
	}
	script := func(total int) spec.Script {
		var w []int
		for total > 0 {
			n := r.Pick(32768, 65536, 200000, 1<<20)
			if n > total {
				n = total
			}
			w = append(w, n)
			total -= n
		}
		return spec.Script{Writes: w, GapsUs: []int64{1}, ReadBufs: []int{65536}, ReadGapUs: 1}
	}
	c0 := mkClient(0, 0)
	up := target / 2
	if r.Bool(0.5) {
		up = r.Intn(target + 1)
	}
	if up < 1 {
		up = 1
	}
	phase1 := 1 + r.Intn(2)
	for i := 0; i < phase1; i++ {
		se := spec.Session{ID: i, StartUs: int64(i * 1000), CloseMode: "barrier", Closer: []string{"client", "server"}[r.Intn(2)], CloseDelayUs: 1000}
		se.C2S = script(max(up/phase1, 1))
		se.S2C = script((target - up) / phase1)
		c0.Sessions = append(c0.Sessions, se)
	}
	phase2At := int64(200000000)
	if r.Bool(0.2) {
		phase2At = int64(r.Pick(1000, 100000, 2000000)) // concurrent with the accounting
	}
	small := func(id int, at int64) spec.Session {
		se := spec.Session{ID: id, StartUs: at, CloseMode: "barrier", Closer: "client", CloseDelayUs: 1000}
		se.C2S = spec.Script{Writes: []int{r.Pick(1, 37, 1500)}, GapsUs: []int64{1}, ReadBufs: []int{32768}, ReadGapUs: 1}
		se.S2C = spec.Script{Writes: []int{r.Pick(1, 50, 3000)}, GapsUs: []int64{1}, ReadBufs: []int{32768}, ReadGapUs: 1}
		return se
	}
	for i := 0; i < 1+r.Intn(2); i++ {
		c0.Sessions = append(c0.Sessions, small(len(c0.Sessions), phase2At+int64(i*500000)))
	}
	c1 := mkClient(1, 1)
	c1.Sessions = []spec.Session{small(0, int64(r.Pick(0, 1000000))), small(1, phase2At+100000)}
	c2 := mkClient(2, 2)
	c2.Sessions = []spec.Session{small(0, phase2At+int64(r.Intn(1000000)))}
	s.Clients = []spec.Client{c0, c1, c2}
	s.Net = spec.Net{LatencyUs: int64(r.Pick(200, 1000, 5000)), ChunkMode: r.Pick(0, 1)}
	return s
}

func init() {
	register(&propDef{
		id: "C19", level: "exploration", quickRuns: 96, thoroughRuns: 2000, wallPerRun: 5 * time.Minute,
		rule:        "Two scenarios. (1) Counter histories under the virtual clock: 1100-3600 (thorough: up to 10000) operations over {Add d (bursts inside one millisecond), Sleep (1 us .. 30 days, straddling the 2 s / 2 min / 2 h / 8 d roll-up ages), Load, DeltaBetween(window), dump->restart->load of the counter, DumpMetricsNow + LoadMetricsFromDump with an intact or torn file}; model = list of (time, delta); after every step Load = sum, history time-ordered, sum(history) = total, every window within [increments in (t1+24h, t2], increments in (t1, t2+24h)] and <= total, reload never decreases a total. (2) End to end on the real client/server stack: a user with a 1-2 MB/1-30 day quota moves a chosen volume (well below, just below, between, just above, well above the allowance) in phase 1; phase 2 opens new sessions for that user and for users without / with a large quota, both handshake modes, TCP and UDP, also concurrently with the accounting. Oracle: per user UploadBytes/DownloadBytes equal the bytes the server application read/wrote; a session opened when >= (M+1) MiB were counted is refused with the quota status on the wire and is never returned by Server.Accept; a session opened when <= M x 10^6 bytes were counted, and every session of other users, is served. The last three ToMetricPB snapshots are held across later increments and compactions (what a dump or an RPC holds while it serialises) and must keep their value and a history that sums to it.",
		assumptions: []string{"the allowance is interpreted loosely (refusal required from (M+1) MiB, service required up to M x 10^6 bytes; in between either)", "the dump file is a real temporary file; torn writes are emulated by truncating it"},
		components:  realComponents,
		gen: func(master uint64, idx int, tier string) *spec.RunSpec {
			seed := runSeed(master, "C19", idx)
			if idx%2 == 0 {
				return genCounterHistory(seed, tier)
			}
			return genQuotaSpec(seed, tier)
		},
	})
}

func genKeyCacheHistory(seed uint64, tier string) *spec.RunSpec {
	r := simnet.NewRng(seed, "kc-hist")
	s := &spec.RunSpec{Property: "C08", Scenario: "history", Seed: seed, Profile: "c08-keycache-history"}
	s.StartOffsetUs = genStartOffset(r)
	h := &spec.History{Kind: "keycache"}
	n := 30 + r.Intn(120)
	sec := int64(1000000)
	base := int64(0)
	for i := 0; i < n; i++ {
		if r.Bool(0.4) {
			h.Ops = append(h.Ops, spec.HOp{Op: "sleep", SleepUs: int64(r.Pick(1, 1000, 1000000, 24000000, 25000000, 29999000, 30000000, 31000000, 61000000, 119000000, 121000000))})
			continue
		}
		// instants: around the current time, around slot changes (60 s + k*120 s), non-monotonic
		var at int64
		switch r.Intn(6) {
		case 0:
			at = base + int64(r.Intn(600))*sec
		case 1:
			at = (60+120*int64(r.Intn(6)))*sec + int64(r.Pick(-1000000, -1, 0, 1, 999999, 1000000)) - s.StartOffsetUs
		case 2:
			at = base - int64(r.Intn(300))*sec
		case 3:
			at = int64(r.Intn(3600)) * sec
		default:
			at = base + int64(r.Pick(0, 1, 29000000, 30000000, 35000000))
		}
		base = at
		h.Ops = append(h.Ops, spec.HOp{Op: "lookup", AtUs: at})
	}
	s.Hist = h
	return s
}

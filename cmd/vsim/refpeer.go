package main

import (
	"fmt"
	"time"

	"verifsim/simnet"
	"verifsim/spec"
)

func refBase(prop string, seed uint64, r *simnet.Rng, mode, tr string) *spec.RunSpec {
	s := &spec.RunSpec{Property: prop, Scenario: "refpeer", Seed: seed, VirtualCapS: 600}
	s.StartOffsetUs = genStartOffset(r)
	s.Server = spec.Server{Users: genUsers(r, 1+r.Intn(3)), IP: "10.0.0.1", HintMandatory: r.Bool(0.3), Pattern: genPattern(r, tr == "tcp", true)}
	if tr == "tcp" {
		s.Server.TCPPort = 5400
	} else {
		s.Server.UDPPort = 6400
		s.Server.MTU = 1400
	}
	s.Net = spec.Net{LatencyUs: int64(r.Pick(100, 100, 1000, 10000))}
	if tr == "tcp" {
		s.Net.ChunkMode = r.Pick(0, 1, 3)
	}
	ref := &spec.RefPeer{Mode: mode, Transport: tr, User: r.Intn(len(s.Server.Users)), Expect: "accept"}
	if mode == "server" {
		c := spec.Client{IP: "10.0.1.1", User: ref.User, Transport: tr, Pattern: genPattern(r, tr == "tcp", true), Multiplex: 0, NoWait: r.Bool(0.4)}
		if tr == "udp" {
			c.MTU = 1400
		}
		s.Clients = []spec.Client{c}
	}
	s.Ref = ref
	return s
}

func genWrites(r *simnet.Rng, tr string, leMode int) []int {
	n := 1 + r.Intn(4)
	var w []int
	for i := 0; i < n; i++ {
		if tr == "tcp" {
			w = append(w, r.Pick(1, 10, 1009, 1024, 1025, 5000, 32764, 32768, 40000, 1+r.Intn(3000)))
		} else {
			w = append(w, r.Pick(1, 10, 500, 800, 1009, 1024, 3000, 1+r.Intn(2000)))
		}
	}
	return w
}

func us(d time.Duration) int64 { return d.Microseconds() }

func p64(v int64) *int64 { return &v }

func init() {
	register(&propDef{
		id: "C08", level: "exploration", quickRuns: 192, thoroughRuns: 4000, wallPerRun: 3 * time.Minute,
		rule:        "A reference peer written from docs/protocol.md carries an explicit clock = bubble clock + d and talks to one real endpoint (reference client -> real server, real client -> reference server; TCP and UDP). Accept grid: d in [-60 s, +60 s] minus the link latency, dense at the ends, with the run's start phase placed around the 120 s key-slot changes and the 60 s timestamp ticks (+-1 us, +-1 s), plus clock jumps of the reference peer mid-session that stay inside the tolerance: the handshake must succeed and data must echo intact. Refuse grid: timestamp >= 2 minutes away with a valid key, key >= 4 minutes away with a fresh timestamp, both skewed by 2..60 minutes: nothing is accepted and (client mode) not a byte comes back. Plus key-cache histories: sequences of lookups with arbitrary, non-monotonic instants around slot changes and cache ages around 30 s: the cipher list / per-user decryptor served for instant t opens exactly the three candidate slots of t and nothing 4 or more minutes away.",
		assumptions: []string{"the skewed node is always the reference peer (mieru reads time.Now() directly; two bubbles cannot share channels)", "the accept grid subtracts twice the link latency plus 50 ms from the 60 s tolerance: a stamp ages while it travels"},
		components:  realComponents,
		gen: func(master uint64, idx int, tier string) *spec.RunSpec {
			seed := runSeed(master, "C08", idx)
			r := simnet.NewRng(seed, "c08")
			if idx%6 == 5 {
				return genKeyCacheHistory(seed, tier)
			}
			if idx%12 == 4 || idx%12 == 9 {
				return c08IdleSpec(seed, r, "tcp") // UDP datagrams are keyed one by one at send time; an unopened UDP session is reaped after a minute of silence
			}
			mode := []string{"client", "server"}[idx%2]
			tr := []string{"tcp", "udp"}[(idx/2)%2]
			s := refBase("C08", seed, r, mode, tr)
			ref := s.Ref
			ref.Writes = []int{r.Pick(1, 100, 2000)}
			margin := 2*time.Duration(s.Net.LatencyUs)*time.Microsecond + 50*time.Millisecond
			maxSkew := 60*time.Second - margin
			switch k := r.Intn(10); {
			case k < 5: // accept grid
				d := []time.Duration{-maxSkew, -maxSkew + time.Millisecond, -59 * time.Second, -30 * time.Second, -time.Second, 0, time.Second, 30 * time.Second, 59 * time.Second, maxSkew - time.Millisecond, maxSkew}[r.Intn(11)]
				ref.SkewUs = us(d)
				s.Profile = "c08-accept-" + mode + "-" + tr
			case k < 6: // small clock jump inside the tolerance
				ref.SkewUs = us(time.Duration(r.Pick(-20, 0, 20)) * time.Second)
				ref.JumpAfter = 1 + r.Intn(2)
				ref.JumpUs = us(time.Duration(r.Pick(-30, -5, 5, 30)) * time.Second)
				ref.Writes = []int{200, 300, 400}
				s.Profile = "c08-jump-" + mode + "-" + tr
			default: // refuse grid
				ref.Expect = "refuse"
				big := time.Duration(r.Pick(2, 3, 4, 5, 10, 60)) * time.Minute
				if r.Bool(0.5) {
					big = -big
				}
				switch r.Intn(3) {
				case 0:
					if mode == "client" {
						ref.KeySkewUs = p64(us(4*time.Minute) * int64(r.Pick(-1, 1)))
						ref.TsSkewUs = p64(0)
						if r.Bool(0.5) {
							*ref.KeySkewUs = us(big) * 2
						}
					} else {
						ref.TsSkewUs = p64(us(big))
					}
				case 1:
					extra := int64(r.Pick(0, 1000000))
					if big < 0 {
						extra = -extra
					}
					ref.TsSkewUs = p64(us(big) + extra)
					ref.KeySkewUs = p64(0)
				default:
					if mode == "client" {
						ref.SkewUs = us(big)
					} else {
						ref.TsSkewUs = p64(us(big))
					}
				}
				// a stamp exactly two minutes in the past ages further in flight: still refused;
				// a stamp in the future by exactly 2 min may age into tolerance: keep clear of that
				if ref.TsSkewUs != nil && *ref.TsSkewUs > 0 && *ref.TsSkewUs < us(2*time.Minute+2*margin) {
					*ref.TsSkewUs = us(2*time.Minute + 2*margin)
				}
				if ref.TsSkewUs == nil && ref.SkewUs > 0 && ref.SkewUs < us(2*time.Minute+2*margin) {
					ref.SkewUs = us(2*time.Minute + 2*margin)
				}
				// likewise a key derived for an instant exactly four minutes ahead is less than
				// four minutes ahead of the receiver's clock when it arrives
				if ref.KeySkewUs != nil && *ref.KeySkewUs > 0 && *ref.KeySkewUs < us(4*time.Minute+2*margin) {
					*ref.KeySkewUs = us(4*time.Minute + 2*margin)
				}
				s.Profile = "c08-refuse-" + mode + "-" + tr
			}
			return s
		},
	})
	register(&propDef{
		id: "C09", level: "exploration", quickRuns: 192, thoroughRuns: 4000, wallPerRun: 5 * time.Minute,
		rule:        "Direction 1: in C01/C02/C03-style runs the tap must decode EVERY segment a real endpoint emits with the user's credential using the reference codec (key slot within +-1 of the emission instant, documented field ranges, nonce progression per transport, tag placement, low-entropy canonical form); an undecodable emitted segment is the violation. Direction 2: a reference client drives a real server and a reference server answers a real client (TCP and UDP, loss-free link) using every freedom the document allows - padding lengths 0..255 in each position, any valid half-mask/rotation/mode and either padding bit, maximal payloads (32768 / 32764 in mode 32), piggy-backed open payload up to 1024 bytes, ack-only segments in between; the real application must receive exactly the bytes (PRF echo). User names up to the documented 64 bytes (30 % of users get 47..64-byte names); on every emitted nonce (first segment of each TCP direction, every UDP datagram) the last four bytes must be SHA-256(user || nonce[0:16])[0:4].",
		assumptions: []string{"refproto (written only from docs/protocol.md) is the trusted base and shares no code with /repo", "UDP reference peers run on a loss-free link: they implement acknowledgements, not recovery"},
		components:  realComponents,
		gen: func(master uint64, idx int, tier string) *spec.RunSpec {
			seed := runSeed(master, "C09", idx)
			r := simnet.NewRng(seed, "c09")
			if idx%2 == 0 {
				src := []string{"C01", "C02", "C03"}[(idx/2)%3]
				s := props[src].gen(master^0x09, idx, tier)
				s.Property = "C09"
				s.Profile = "c09-tap:" + s.Profile
				return s
			}
			mode := []string{"client", "server"}[(idx/2)%2]
			tr := []string{"tcp", "udp"}[(idx/4)%2]
			s := refBase("C09", seed, r, mode, tr)
			ref := s.Ref
			ref.LEMode = r.Pick(0, 0, 1, 2, 3, 4)
			ref.LERot = leRotations[r.Intn(len(leRotations))]
			ref.LEPadBit = r.Intn(2)
			ref.Writes = genWrites(r, tr, ref.LEMode)
			ref.PiggybackExtra = r.Pick(0, 0, 1, 500, 1009, 2000)
			ref.AckOnly = r.Bool(0.3)
			ref.OpenRespPayload = mode == "server" && r.Bool(0.5)
			for i := 0; i < 3; i++ {
				ref.Pad1 = append(ref.Pad1, r.Pick(0, 0, 1, 255, r.Intn(256)))
				ref.Pad2 = append(ref.Pad2, r.Pick(0, 0, 1, 255, r.Intn(256)))
			}
			ref.MaxChunk = r.Pick(0, 0, 100, 1024, 32768)
			if r.Bool(0.15) {
				// one application byte per segment: keep the volume small
				ref.MaxChunk = 1
				ref.Writes = []int{r.Pick(1, 50, 300)}
				ref.PiggybackExtra = 0
			}
			s.Profile = "c09-ref-" + mode + "-" + tr
			return s
		},
	})
}

// c08IdleSpec: real client and real server with equal clocks, but the application is slow: it dials,
// stays idle for seconds to an hour - across one, two, three key-slot changes - and only then writes
// for the first time (0-RTT connections and connections taken straight from the multiplexer send
// nothing before that), or a second session starts that long after the first. The handshake must
// still succeed and the data arrive: "at every instant ... their handshake succeeds".
func c08IdleSpec(seed uint64, r *simnet.Rng, tr string) *spec.RunSpec {
	s := genStreamSpec("C08", seed, streamGenOpts{transport: tr, maxBytes: 3000, maxSessions: 2, closeMode: "barrier", rich: false})
	s.Scenario = "stream"
	s.VirtualCapS = 12000 // two idle periods of up to an hour each, and the transfer
	s.Server.RawMux = r.Bool(0.5)
	idle := int64(r.Pick(1, 30, 59, 61, 119, 121, 179, 181, 239, 241, 299, 301, 600, 3600)) * 1000000
	for ci := range s.Clients {
		c := &s.Clients[ci]
		c.NoWait = !s.Server.RawMux
		for si := range c.Sessions {
			se := &c.Sessions[si]
			if len(se.C2S.Writes) == 0 {
				se.C2S.Writes = []int{1}
			}
			if len(se.C2S.Writes) > 3 {
				se.C2S.Writes = se.C2S.Writes[:3]
			}
			se.C2S.GapsUs = []int64{idle + int64(r.Intn(2000000)), 1000, 1000}
			se.C2S.ReadDelayUs, se.S2C.ReadDelayUs = 0, 0
			if si > 0 && r.Bool(0.5) {
				se.StartUs += idle // a later session on a multiplexer that has been idle meanwhile
			}
		}
	}
	s.Net.Rules, s.Net.DropRate, s.Net.DupRate, s.Net.DelayRate = nil, 0, 0, 0
	s.Net.Blackholes = nil
	s.Liveness = nil
	s.Profile = fmt.Sprintf("c08-idle-%ds-before-first-write-%s", idle/1000000, tr)
	return s
}

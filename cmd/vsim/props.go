package main

import (
	"time"

	"verifsim/simnet"
	"verifsim/spec"
)

var realComponents = map[string]string{
	"apis/client, apis/server, pkg/protocol, pkg/cipher, pkg/replay, pkg/congestion, pkg/metrics, pkg/rng, apis/trafficpattern": "real code from /repo's working tree",
	"network (TCP/UDP between nodes)":  "stub: verifsim/simnet, reached through apicommon.Dialer/PacketDialer/StreamListenerFactory/PacketListenerFactory",
	"clock, timers":                    "stub: testing/synctest bubble (virtual time)",
	"goroutine scheduling, select choice, timer ties": "Go runtime with the seeded overlay of DESIGN Appendix A, GOMAXPROCS=1",
	"crypto/rand, math/rand":           "seeded (cryptotest.SetGlobalRandom, rand.Seed)",
	"applications":                     "stub: scripted PRF writers/readers",
	"wire tap / reference peers":       "verifsim/refproto, written from docs/protocol.md only",
}

func runSeed(master uint64, prop string, idx int) uint64 {
	return simnet.H(master, "run-"+prop, uint64(idx))
}

func init() {
	register(&propDef{
		id: "C01", level: "exploration", quickRuns: 160, thoroughRuns: 4000, wallPerRun: 4 * time.Minute,
		rule: "Each run: 1-3 real clients x 1-6 multiplexed TCP sessions against a real server, full-duplex PRF scripts with boundary-biased write/read sizes, independent random traffic patterns per side (padding, fragmentation, 4 nonce types, low-entropy off/32/40/48/56 x 31 rotations), both handshake modes, random link latency/jitter/bandwidth/receive buffer and PRNG re-chunking of the byte stream (incl. one byte per read); offset-exact stream oracle at every Read.",
		assumptions: []string{"TCP semantics are those of the simnet model (ordered reliable byte stream, arbitrary re-chunking, back-pressure)", "a clean batch is evidence, not proof"},
		components:  realComponents,
		gen: func(master uint64, idx int, tier string) *spec.RunSpec {
			seed := runSeed(master, "C01", idx)
			r := simnet.NewRng(seed, "c01-size")
			maxBytes := r.Pick(2000, 20000, 200000, 200000, 1 << 20)
			if tier == "thorough" {
				maxBytes = r.Pick(2000, 20000, 200000, 1<<20, 4<<20, 8<<20)
			}
			s := genStreamSpec("C01", seed, streamGenOpts{transport: "tcp", maxBytes: maxBytes, maxSessions: 6, closeMode: "barrier", rich: true})
			s.Profile = "tcp-faultfree"
			return s
		},
	})
}

package main

import (
	"strings"
	"time"

	"verifsim/simnet"
	"verifsim/spec"
)

var realComponents = map[string]string{
	"apis/client, apis/server, pkg/protocol, pkg/cipher, pkg/replay, pkg/congestion, pkg/metrics, pkg/rng, apis/trafficpattern": "real code from /repo's working tree",
	"network (TCP/UDP between nodes)":                 "stub: verifsim/simnet, reached through apicommon.Dialer/PacketDialer/StreamListenerFactory/PacketListenerFactory",
	"clock, timers":                                   "stub: testing/synctest bubble (virtual time)",
	"goroutine scheduling, select choice, timer ties": "Go runtime with the seeded overlay of DESIGN Appendix A, GOMAXPROCS=1",
	"crypto/rand, math/rand":                          "seeded (cryptotest.SetGlobalRandom, rand.Seed)",
	"applications":                                    "stub: scripted PRF writers/readers",
	"wire tap / reference peers":                      "verifsim/refproto, written from docs/protocol.md only",
}

func runSeed(master uint64, prop string, idx int) uint64 {
	return simnet.H(master, "run-"+prop, uint64(idx))
}

func init() {
	register(&propDef{
		id: "C01", level: "exploration", quickRuns: 160, thoroughRuns: 4000, wallPerRun: 4 * time.Minute,
		rule:        "Each run: 1-3 real clients x 1-6 multiplexed TCP sessions against a real server, full-duplex PRF scripts with boundary-biased write/read sizes, independent random traffic patterns per side (padding, fragmentation, 4 nonce types, low-entropy off/32/40/48/56 x 31 rotations), both handshake modes, random link latency/jitter/bandwidth/receive buffer and PRNG re-chunking of the byte stream (incl. one byte per read); offset-exact stream oracle at every Read. Writers overwrite their buffer as soon as Write returns (io.Writer: must not retain p). 35 % of the runs take their connections straight from protocol.Mux on both sides (as mieru's own client and server programs do) instead of through apis/client and apis/server: there the application's first write is the session's first write and rides on the open-session request.",
		assumptions: []string{"TCP semantics are those of the simnet model (ordered reliable byte stream, arbitrary re-chunking, back-pressure)", "a clean batch is evidence, not proof"},
		components:  realComponents,
		gen: func(master uint64, idx int, tier string) *spec.RunSpec {
			seed := runSeed(master, "C01", idx)
			r := simnet.NewRng(seed, "c01-size")
			maxBytes := r.Pick(2000, 20000, 200000, 200000, 1<<20)
			if tier == "thorough" {
				maxBytes = r.Pick(2000, 20000, 200000, 1<<20, 4<<20, 8<<20)
			}
			s := genStreamSpec("C01", seed, streamGenOpts{transport: "tcp", maxBytes: maxBytes, maxSessions: 6, closeMode: "barrier", rich: true})
			s.Profile = "tcp-faultfree"
			return s
		},
	})
}

// applyUDPFaultProfile draws one datagram fault profile (swarm style).
func applyUDPFaultProfile(s *spec.RunSpec, r *simnet.Rng, liveness bool) {
	n := &s.Net
	profiles := []string{"udp-clean", "udp-light", "udp-light", "udp-heavy", "udp-bursty", "udp-partition", "udp-targeted", "udp-targeted"}
	prof := profiles[r.Intn(len(profiles))]
	if strings.Contains(s.Profile, "+slow-reader") {
		// thousands of tiny segments: sustained heavy loss would make the run last for virtual
		// hours (each round of retransmissions loses its share again)
		if prof == "udp-heavy" {
			prof = "udp-light"
		}
		prof += "+slow-reader"
	}
	s.Profile = prof
	switch strings.TrimSuffix(prof, "+slow-reader") {
	case "udp-clean":
	case "udp-light":
		n.DropRate = 0.01 + 0.05*r.Float()
		n.DupRate = 0.03 * r.Float()
		n.DelayRate = 0.08 * r.Float()
		n.MaxDelayUs = int64(r.Pick(2000, 20000, 100000))
	case "udp-heavy":
		n.DropRate = 0.05 + 0.25*r.Float()
		n.DupRate = 0.2 * r.Float()
		n.DelayRate = 0.2 * r.Float()
		n.MaxDelayUs = int64(r.Pick(20000, 200000, 2000000))
		n.CorruptRate = 0.03 * r.Float()
	case "udp-bursty":
		n.DropRate = 0.02
		k := 1 + r.Intn(4)
		for i := 0; i < k; i++ {
			from := int64(r.Intn(8000000))
			n.Blackholes = append(n.Blackholes, spec.Blackhole{Client: -1, Dir: r.Pick(-1, 0, 1), FromUs: s.StartOffsetUs + from, ToUs: s.StartOffsetUs + from + int64(r.Pick(5000, 50000, 300000, 1500000))})
		}
	case "udp-partition":
		from := int64(r.Pick(0, 1000, 50000, 500000, 3000000))
		n.Blackholes = append(n.Blackholes, spec.Blackhole{Client: -1, Dir: r.Pick(-1, -1, 0, 1), FromUs: s.StartOffsetUs + from, ToUs: s.StartOffsetUs + from + int64(r.Pick(1000000, 5000000, 12000000, 20000000))})
	case "udp-targeted":
		k := 1 + r.Intn(3)
		for i := 0; i < k; i++ {
			rule := spec.DgramRule{Client: -1, Dir: r.Intn(2), Index: -1}
			rule.Match = []string{"openreq", "openresp", "closereq", "closeresp", "ack", "anydata", "anydata", "data:1", "data:2", "data:3"}[r.Intn(10)]
			rule.Kind = []string{"drop", "drop", "dup", "delay", "corrupt"}[r.Intn(5)]
			rule.Nth = r.Pick(0, 0, 1, 2, r.Intn(20))
			rule.Count = r.Pick(1, 1, 2, 3)
			if rule.Match == "ack" && rule.Kind == "drop" {
				rule.Count = r.Pick(1, 5, 50, 300)
			}
			if rule.Kind == "delay" {
				rule.ArgUs = int64(r.Pick(500, 5000, 50000, 500000, 2000000))
			}
			if rule.Kind == "dup" {
				rule.Copies = r.Pick(1, 1, 2, 5)
				rule.ArgUs = int64(r.Pick(1, 1000, 100000))
			}
			if rule.Kind == "corrupt" {
				rule.Off = int64(r.Intn(1300))
				rule.Xor = byte(1 << r.Intn(8))
			}
			n.Rules = append(n.Rules, rule)
		}
	}
	if liveness {
		// Fairness budgets (DESIGN §2.3): this check's definition of a fair share.
		n.MaxDropPerSeg = 4
		n.MaxHandshakeDrops = 2
		if n.DropRate > 0 || n.DupRate > 0 || n.DelayRate > 0 || n.CorruptRate > 0 {
			n.HealUs = s.StartOffsetUs + int64(r.Pick(2000000, 10000000, 30000000, 60000000))
		}
		// targeted drops of one segment stay within the same budget
		for i := range n.Rules {
			if n.Rules[i].Kind == "drop" || n.Rules[i].Kind == "corrupt" {
				if n.Rules[i].Match != "ack" && n.Rules[i].Count > 2 {
					n.Rules[i].Count = 2
				}
				if n.Rules[i].Match == "openreq" || n.Rules[i].Match == "openresp" {
					n.Rules[i].Count = 1
				}
			}
			if n.Rules[i].Kind == "delay" && n.Rules[i].ArgUs > 500000 {
				n.Rules[i].ArgUs = 500000
			}
		}
		// bound: 120 virtual seconds + 10x the loss-free transfer time at 16 segments per round trip
		total := int64(sumAll(s))
		rtt := 2 * (n.LatencyUs + n.JitterUs)
		segs := total/1100 + 1
		s.Liveness = &spec.Liveness{BoundUs: 120000000 + 10*(segs/16+1)*rtt}
	}
}

func init() {
	register(&propDef{
		id: "C02", level: "exploration", quickRuns: 192, thoroughRuns: 4000, wallPerRun: 5 * time.Minute,
		rule:        "Each run: 1-3 real clients x 1-4 sessions over the UDP transport (MTU 1280-1500, random traffic patterns incl. low entropy) with one datagram fault profile: clean, light or heavy random loss/duplication/delay-reorder/corruption, bursts, a partition of up to 20 s, or targeted faults on named datagrams (open request/response, nth data segment, acks, close). Offset-exact stream oracle at every Read; progress oracle under explicit fairness budgets (<=4 drops per segment, <=2 faults per handshake, faults stop at a recorded heal instant): every byte is read within 120 virtual s + 10x the loss-free transfer time after the heal. Buffer reuse after Write and the 35 % share of raw protocol.Mux runs are as in C01. While a handshake is pending the fair-network budget allows no injected delay above 200 ms.",
		assumptions: []string{"'fair share' is defined by the budgets recorded in each spec (net.maxDropPerSeg, net.maxHandshakeDrops, net.healUs, blackholes <= 20 s)", "UDP semantics are those of the simnet model", "a clean batch is evidence, not proof"},
		components:  realComponents,
		gen: func(master uint64, idx int, tier string) *spec.RunSpec {
			seed := runSeed(master, "C02", idx)
			r := simnet.NewRng(seed, "c02")
			maxBytes := r.Pick(2000, 20000, 100000, 300000)
			if tier == "thorough" {
				maxBytes = r.Pick(2000, 20000, 100000, 300000, 512<<10)
			}
			s := genStreamSpec("C02", seed, streamGenOpts{transport: "udp", maxBytes: maxBytes, maxSessions: 4, closeMode: "barrier", rich: true})
			applyUDPFaultProfile(s, r, true)
			return s
		},
	})
	register(&propDef{
		id: "C03", level: "exploration", quickRuns: 192, thoroughRuns: 4000, wallPerRun: 5 * time.Minute,
		rule:        "Each run: one side writes n bytes (1 B-1 MiB, boundary biased) in 1-6 successful writes and calls Close after a delay in {0, 50us, 1ms, RTT, random}; the peer reads until EOF or error. Both roles, both transports, 1-3 sessions. UDP: loss/duplication/reordering of datagrams in flight at close time (random and targeted at the last data segments and the close request); TCP: re-chunking, back-pressure, slow links. Oracle: the peer reads all n bytes before EOF, or gets an error; clean EOF after a strict prefix is the violation.",
		assumptions: []string{"only the direction written by the closing side is judged", "a clean batch is evidence, not proof"},
		components:  realComponents,
		gen: func(master uint64, idx int, tier string) *spec.RunSpec {
			seed := runSeed(master, "C03", idx)
			r := simnet.NewRng(seed, "c03")
			if idx%12 == 7 {
				return c03ForgottenSessionSpec(seed, r)
			}
			if idx%12 == 3 {
				return c03SlowLinkSpec(seed, r)
			}
			tr := []string{"tcp", "udp", "udp"}[r.Intn(3)]
			maxBytes := r.Pick(1, 1500, 20000, 100000, 300000)
			if tier == "thorough" {
				maxBytes = r.Pick(1, 1500, 20000, 100000, 300000, 1<<20)
			}
			s := genStreamSpec("C03", seed, streamGenOpts{transport: tr, maxBytes: maxBytes, maxSessions: 3, closeMode: "afterwrite", rich: r.Bool(0.5)})
			rtt := 2 * s.Net.LatencyUs
			for ci := range s.Clients {
				for si := range s.Clients[ci].Sessions {
					se := &s.Clients[ci].Sessions[si]
					se.CloseDelayUs = int64(r.Pick(0, 0, 50, 1000, int(rtt), r.Intn(int(3*rtt)+1)))
				}
			}
			if tr == "udp" {
				applyUDPFaultProfile(s, r, false)
				if r.Bool(0.4) {
					// faults aimed at the datagrams in flight at close time
					s.Net.Rules = append(s.Net.Rules, spec.DgramRule{Client: -1, Dir: r.Intn(2), Index: -1, Match: "closereq", Kind: []string{"drop", "dup", "delay"}[r.Intn(3)], ArgUs: int64(r.Pick(1000, 50000, 500000)), Copies: 1, Count: 1})
				}
				s.Profile = "c03-" + s.Profile
			} else {
				s.Profile = "c03-tcp"
				if r.Bool(0.4) {
					s.Net.BytesPerSec = int64(r.Pick(20000, 100000, 1000000))
				}
			}
			return s
		},
	})
}

// c03SlowLinkSpec: UDP over a long but loss-free path (0.3-0.8 s each way). The writer hands over
// tens of kilobytes and closes at once: the graceful part of Close (about a second) cannot drain
// the send queue through the initial window, so the close request leaves while data that was
// accepted by Write has never been sent. The reader must get an error, not a clean end.
func c03SlowLinkSpec(seed uint64, r *simnet.Rng) *spec.RunSpec {
	s := genStreamSpec("C03", seed, streamGenOpts{transport: "udp", maxBytes: 3000, maxSessions: 1, closeMode: "afterwrite", rich: r.Bool(0.3)})
	s.Clients = s.Clients[:1]
	c := &s.Clients[0]
	c.Sessions = c.Sessions[:1]
	se := &c.Sessions[0]
	se.StartUs = 0
	se.Closer = []string{"client", "server"}[r.Intn(2)]
	se.CloseDelayUs = int64(r.Pick(0, 0, 50, 100000))
	big := spec.Script{Writes: []int{r.Pick(20000, 32768, 60000, 100000)}, GapsUs: []int64{1}, ReadBufs: []int{32768}, ReadGapUs: 1}
	small := spec.Script{Writes: []int{r.Pick(1, 100)}, GapsUs: []int64{1}, ReadBufs: []int{32768}, ReadGapUs: 1}
	if se.Closer == "client" {
		se.C2S, se.S2C = big, small
	} else {
		se.C2S, se.S2C = small, big
	}
	s.Net = spec.Net{LatencyUs: int64(r.Pick(300000, 500000, 750000))}
	s.Liveness = nil
	s.VirtualCapS = 900
	s.Profile = "c03-udp-close-with-unsent-backlog"
	return s
}

// c03ForgottenSessionSpec: UDP. The server application answers and closes at once; everything the
// server sends after its open-session response is lost until the server has forgotten the closed
// session (its 5 s housekeeping tick), so the client - which has seen neither data nor close - is
// still retransmitting its open request when the server no longer knows the session. Whatever the
// client's reader then gets, it must not be a clean end of stream.
func c03ForgottenSessionSpec(seed uint64, r *simnet.Rng) *spec.RunSpec {
	s := genStreamSpec("C03", seed, streamGenOpts{transport: "udp", maxBytes: 3000, maxSessions: 1, closeMode: "afterwrite", rich: false})
	s.Clients = s.Clients[:1]
	c := &s.Clients[0]
	c.Sessions = c.Sessions[:1]
	se := &c.Sessions[0]
	se.StartUs = 0
	se.Closer = "server"
	se.CloseDelayUs = int64(r.Pick(0, 0, 50, 1000))
	se.C2S = spec.Script{Writes: []int{r.Pick(1, 16, 500, 1000)}, GapsUs: []int64{1}, ReadBufs: []int{32768}, ReadGapUs: 1}
	se.S2C = spec.Script{Writes: []int{r.Pick(1, 100, 1400, 2000)}, GapsUs: []int64{1}, ReadBufs: []int{32768}, ReadGapUs: 1}
	s.Server.RawMux = r.Bool(0.5)
	c.NoWait = !s.Server.RawMux && r.Bool(0.5)
	lat := int64(r.Pick(200, 1000, 5000))
	s.Net = spec.Net{LatencyUs: lat}
	// server-to-client silence (from the start, or from just after the open-session response
	// has left) until shortly before the client's retransmission that follows the server's 5 s tick
	s.Net.Blackholes = []spec.Blackhole{{Client: -1, Dir: 1, FromUs: []int64{0, 0, lat + 2, lat + 60}[r.Intn(4)], ToUs: int64(r.Pick(5200000, 5600000, 5900000))}}
	s.Liveness = nil
	s.VirtualCapS = 600
	s.Profile = "c03-udp-server-forgets-closed-session"
	return s
}

func init() {
	c02 := func() *propDef { return props["C02"] }
	register(&propDef{
		id: "C13", level: "exploration", quickRuns: 192, thoroughRuns: 4000, wallPerRun: 5 * time.Minute,
		rule:        "Runs are drawn from the C02 and C03 generators (all UDP fault profiles, with and without fairness budgets). On every emitted datagram the tap (reference decoder) checks: (1) the cumulative ack it carries does not exceed the in-order prefix of the opposite direction that simnet has already DELIVERED to the emitting endpoint; (2) every retransmission of a (session, direction, seq) carries the same type, fragment number and plaintext payload as its first transmission; (3) first transmissions of open/data segments appear with seq 0,1,2,... without gaps.",
		assumptions: []string{"close segments and the underlay's session-less close request are exempt from (3): their seq is an ack number by construction", "the reference codec is the trusted base"},
		components:  realComponents,
		gen: func(master uint64, idx int, tier string) *spec.RunSpec {
			var s *spec.RunSpec
			if idx%3 == 2 {
				s = props["C03"].gen(master^0x13, idx, tier)
				for s.Clients[0].Transport != "udp" {
					idx += 7919
					s = props["C03"].gen(master^0x13, idx, tier)
				}
			} else {
				s = c02().gen(master^0x13, idx, tier)
				if idx%3 == 1 {
					// safety-only: no fairness budgets
					s.Liveness = nil
					s.Net.MaxDropPerSeg, s.Net.MaxHandshakeDrops, s.Net.HealUs = 0, 0, 0
					s.Profile += "-nobudget"
				}
			}
			s.Property = "C13"
			return s
		},
	})
}

// mixGen draws runs from several stream generators (tap-invariant properties
// are evaluated on the same kind of runs as C01-C03).
// c14SizeSweep rewrites the scripts of a UDP run into series of writes whose data segment
// leaves a chosen amount of room in the datagram (0, 1, around one and around two maximal
// paddings, anything up to 520 bytes), with the padding maxima at their defaults or at 255.
func c14SizeSweep(s *spec.RunSpec, r *simnet.Rng) {
	s.Profile += "+size-sweep"
	if r.Bool(0.5) {
		s.Server.Pattern = nil
	} else if s.Server.Pattern != nil {
		s.Server.Pattern.PadMid, s.Server.Pattern.PadEnd, s.Server.Pattern.LEMode = pI32(255), pI32(255), pI32(0)
	}
	mk := func(mtu int) []int {
		if mtu == 0 {
			mtu = 1400
		}
		var out []int
		for i, n := 0, 10+r.Intn(25); i < n; i++ {
			room := r.Pick(0, 1, 254, 255, 255, 256, 260, 270, 300, 400, 509, 510, 511, r.Intn(520))
			size := mtu - 88 - room
			if r.Bool(0.2) {
				size += 32768 // a full fragment first, then the tail
			}
			if size < 1 {
				size = 1
			}
			out = append(out, size)
		}
		return out
	}
	for ci := range s.Clients {
		c := &s.Clients[ci]
		if r.Bool(0.5) {
			c.Pattern = nil
		} else if c.Pattern != nil {
			c.Pattern.PadMid, c.Pattern.PadEnd, c.Pattern.LEMode = pI32(255), pI32(255), pI32(0)
		}
		for si := range c.Sessions {
			se := &c.Sessions[si]
			se.C2S.Writes, se.S2C.Writes = mk(c.MTU), mk(s.Server.MTU)
			se.C2S.GapsUs, se.S2C.GapsUs = []int64{int64(r.Pick(100, 1000, 5000))}, []int64{int64(r.Pick(100, 1000, 5000))}
			se.C2S.ReadBufs, se.S2C.ReadBufs = []int{65536}, []int{65536}
		}
	}
	if s.Liveness != nil {
		total := int64(sumAll(s))
		s.Liveness.BoundUs += 10 * (total/1100/16 + 1) * 2 * s.Net.LatencyUs
	}
}

func mixGen(id string, salt uint64, parts ...string) func(master uint64, idx int, tier string) *spec.RunSpec {
	return func(master uint64, idx int, tier string) *spec.RunSpec {
		src := parts[idx%len(parts)]
		s := props[src].gen(master^salt, idx, tier)
		s.Property = id
		s.Profile = src + ":" + s.Profile
		return s
	}
}

func init() {
	register(&propDef{
		id: "C14", level: "exploration", quickRuns: 192, thoroughRuns: 4000, wallPerRun: 5 * time.Minute,
		rule:        "UDP runs from the C02/C03 generators with MTU 1280-1500 drawn independently per side, padding maxima 0..255, low-entropy off/32/40/48/56, write sizes 1 B to several fragments, first-write piggyback 0..1024, and fault profiles that force retransmissions, acks and control segments. On every emitted datagram: len <= sender's configured MTU; on every decoded segment (both transports): session payload <= 1024, fragment <= 32768, low-entropy length law. Half of the UDP runs are size sweeps: series of writes whose data segment leaves 0, 1, 254..256, 509..511 or a random 0..520 bytes of room in the datagram (optionally after a full 32 KiB fragment), with padding maxima at their defaults or at 255.",
		assumptions: []string{"the configured MTU of a sender is the mtu field of its own configuration", "the reference codec is the trusted base"},
		components:  realComponents,
		gen: func(master uint64, idx int, tier string) *spec.RunSpec {
			s := mixGen("C14", 0x14, "C02", "C02", "C03", "C01")(master, idx, tier)
			if r := simnet.NewRng(s.Seed, "c14-sizes"); s.Clients[0].Transport == "udp" && r.Bool(0.5) {
				c14SizeSweep(s, r)
			}
			return s
		},
	})
	register(&propDef{
		id: "C16", level: "exploration", quickRuns: 192, thoroughRuns: 4000, wallPerRun: 5 * time.Minute,
		rule:        "Every run draws independent TrafficPattern messages for server and each client with a random subset of explicit fields at boundary values (0, 255, minLen=maxLen, maxLen below the implicit minLen range, 0..12-byte and multiple fixed prefixes), seed and unlockAll. Before the run: NewConfig succeeds for every message Validate accepts, explicit fields are unchanged in Effective(), Effective() is equal across two constructions and passes Validate, Decode(Encode(p)) == p. On the tap, against Effective(): prefix/suffix padding within the maxima, nonce prefix conforms (first UDP packet / every packet with applyToAllUDPPacket / the TCP nonce), TCP handshake segments fragmented iff explicitly enabled, low-entropy types/mode/rotation as configured, a server uses low entropy only after the client did on that session.",
		assumptions: []string{"implicit values are held to what Config.Effective() reports; explicit ones to what was written", "printable means 0x20..0x7e as documented"},
		components:  realComponents,
		gen:         mixGen("C16", 0x16, "C01", "C02", "C03"),
	})
}

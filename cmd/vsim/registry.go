package main

import (
	"fmt"
	"time"

	"verifsim/refproto"
	"verifsim/simnet"
	"verifsim/spec"
)

// regNoncePrefix is the nonce the registry scenario gives segment i of a run (scen_registry.go
// derives the same bytes), so the generator can search for names that collide on its hint.
func regNoncePrefix(seed uint64, i int) []byte {
	n := make([]byte, 24)
	for j := range n {
		n[j] = byte(simnet.H(seed, "regnonce", uint64(i), uint64(j)))
	}
	return n
}

// collidingNames finds two distinct names with the same 4-byte user hint under nonce
// (birthday search, about 2^16 hashes).
func collidingNames(nonce []byte, tag string) (string, string, bool) {
	seen := map[[4]byte]string{}
	for k := 0; k < 400000; k++ {
		name := fmt.Sprintf("hc%s-%d", tag, k)
		h := refproto.UserHint(name, nonce)
		if other, ok := seen[h]; ok {
			return other, name, true
		}
		seen[h] = name
	}
	return "", "", false
}

func genRegistrySpec(seed uint64, tier string) *spec.RunSpec {
	r := simnet.NewRng(seed, "c07")
	s := &spec.RunSpec{Property: "C07", Scenario: "registry", Seed: seed, Profile: "c07-registry"}
	s.StartOffsetUs = genStartOffset(r)
	rs := &spec.RegSpec{Mandatory: r.Bool(0.4)}
	nUsers := r.Pick(1, 2, 3, 5, 8, 20, 40)
	for i := 0; i < nUsers; i++ {
		rs.Universe = append(rs.Universe, spec.RUser{Name: fmt.Sprintf("u%d-%x", i, r.Intn(1<<12)), Password: fmt.Sprintf("pw%d-%x", i, r.U64()), ShareWith: -1})
	}
	// re-keyed variants: same name, another password (never in one set together)
	nRekey := r.Intn(3)
	for k := 0; k < nRekey; k++ {
		b := r.Intn(nUsers)
		rs.Universe = append(rs.Universe, spec.RUser{Name: rs.Universe[b].Name, Password: rs.Universe[b].Password + "-new", ShareWith: -1})
	}
	// shared credentials: another name configured with an existing user's hashed credential
	if r.Bool(0.3) {
		rs.Universe = append(rs.Universe, spec.RUser{Name: fmt.Sprintf("shared-%x", r.Intn(1<<12)), ShareWith: r.Intn(nUsers)})
	}
	nSets := 1 + r.Intn(4)
	for v := 0; v < nSets; v++ {
		used := map[string]bool{}
		var set []int
		for i := range rs.Universe {
			if r.Bool(0.65) && !used[rs.Universe[i].Name] {
				set = append(set, i)
				used[rs.Universe[i].Name] = true
			}
		}
		if v > 0 && r.Bool(0.15) {
			set = nil // the operator removes the last user: a reload to an empty user list
		} else if len(set) == 0 {
			set = []int{0}
		}
		rs.Sets = append(rs.Sets, set)
	}
	nSrc := 1 + r.Intn(6)
	for i := 0; i < nSrc; i++ {
		if i > 0 && r.Bool(0.5) {
			rs.Sources = append(rs.Sources, "collide")
		} else {
			rs.Sources = append(rs.Sources, fmt.Sprintf("10.%d.%d.%d", r.Intn(250), r.Intn(250), 1+r.Intn(250)))
		}
	}
	nSegs := 2 + r.Intn(6)
	for i := 0; i < nSegs; i++ {
		sg := spec.RSeg{Cred: r.Intn(len(rs.Universe)), Hint: -2}
		switch r.Intn(6) {
		case 0:
			sg.Cred = -1
			sg.Hint = r.Intn(len(rs.Universe))
		case 1:
			sg.Hint = -1
		case 2:
			sg.Hint = r.Intn(len(rs.Universe)) // a hint naming some other real user
		case 3:
			sg.Hint = -2
		default:
			sg.Hint = sg.Cred
			if rs.Universe[sg.Cred].ShareWith >= 0 && r.Bool(0.5) {
				sg.Hint = rs.Universe[sg.Cred].ShareWith
			}
		}
		rs.Segs = append(rs.Segs, sg)
	}
	// Names that collide on the 4-byte hint: two extra users A and B whose hints are equal
	// under the nonce of B's segment; A authenticates (and is cached) from a source, then B
	// presents its segment from the same source.
	collide := r.Bool(0.35)
	var segA, segB int
	if collide {
		segB = len(rs.Segs)
		segA = segB + 1
		a, b, ok := collidingNames(regNoncePrefix(seed, segB), fmt.Sprintf("%x", seed&0xffff))
		if ok {
			ia := len(rs.Universe)
			rs.Universe = append(rs.Universe, spec.RUser{Name: a, Password: fmt.Sprintf("pwA-%x", r.U64()), ShareWith: -1}, spec.RUser{Name: b, Password: fmt.Sprintf("pwB-%x", r.U64()), ShareWith: -1})
			for v := range rs.Sets {
				rs.Sets[v] = append(rs.Sets[v], ia, ia+1)
			}
			rs.Segs = append(rs.Segs, spec.RSeg{Cred: ia + 1, Hint: ia + 1}, spec.RSeg{Cred: ia, Hint: ia})
			if r.Bool(0.3) {
				// B's key under a hint computed for A's name: the same four bytes
				rs.Segs[segB].Hint = ia
			}
			nSegs = len(rs.Segs)
			src := r.Intn(nSrc)
			rs.Actors = append(rs.Actors, []spec.ROp{
				{Op: "discover", Seg: segA, Source: src, Current: r.Bool(0.5), Record: true},
				{Op: "discover", Seg: segB, Source: src, Current: r.Bool(0.5), Record: r.Bool(0.5)},
				{Op: "discover", Seg: segB, Source: r.Intn(nSrc), Current: r.Bool(0.5), Record: r.Bool(0.5)},
				{Op: "discover", Seg: segA, Source: src, Current: r.Bool(0.5), Record: true},
			})
		}
	}
	nDisc := 1 + r.Intn(3)
	for a := 0; a < nDisc; a++ {
		var ops []spec.ROp
		n := 3 + r.Intn(7)
		for k := 0; k < n; k++ {
			if r.Bool(0.12) {
				ops = append(ops, spec.ROp{Op: "sleep", Us: int64(r.Pick(1000000, 300000000, 599000000, 601000000, 1300000000))})
				continue
			}
			ops = append(ops, spec.ROp{Op: "discover", Seg: r.Intn(nSegs), Source: r.Intn(nSrc), Current: r.Bool(0.5), Record: r.Bool(0.7)})
		}
		rs.Actors = append(rs.Actors, ops)
	}
	var rl []spec.ROp
	n := r.Intn(5)
	if r.Bool(0.5) {
		n = 2 + r.Intn(6) // reloads racing with many discoveries
	}
	// The user list and the hint-mandatory flag are two separate atomics: a discovery reads
	// the list first and the flag later, so a run that changes both at once can show a
	// combination that never existed at one instant. Nothing promises otherwise; a run
	// therefore either reloads the list or toggles the flag.
	toggles := r.Bool(0.2)
	for k := 0; k < n; k++ {
		if toggles {
			rl = append(rl, spec.ROp{Op: "mandatory", On: r.Bool(0.5)})
		} else {
			rl = append(rl, spec.ROp{Op: "setusers", Set: r.Intn(nSets)})
		}
	}
	if len(rl) > 0 {
		rs.Actors = append(rs.Actors, rl)
	}
	s.Reg = rs
	return s
}

func init() {
	register(&propDef{
		id: "C07", level: "exploration", quickRuns: 240, thoroughRuns: 6000, wallPerRun: 3 * time.Minute,
		rule:        "serveruser.Registry under a cooperative scheduler: 1-3 discovery actors and a reload actor run one at a time; at every yield site inside Discover / SetUsers / cache recording (hook H2) and between operations the next actor is chosen from the seed, so interleavings are exact. Inputs: user universes of 1-40 users incl. re-keyed users (same name, new password) and users configured with another user's hashed credential; 1-4 user-set versions; first segments built by the reference codec for (authenticating credential, hinted name) incl. keys nobody has, hints naming other real users, hints naming nobody, random hints; 1-6 source addresses incl. addresses searched to collide in one source-cache bucket; hint-mandatory on/off and toggled; cache ageing by virtual sleeps across the 10-minute life; both requireCurrent modes; recording on/off. Oracle: porcupine linearizability of the recorded history (event-sequence stamps, <= 40 operations, 30 s cap, Unknown never reported) against a reference decision that ignores caches and sources: a segment is accepted iff a user of the generation current at its linearization point holds the authenticating credential (the hinted one wins; with mandatory hints only the hinted one counts). End-to-end attribution (UserContext.UserName of accepted sessions = dialling user) is asserted in every C01/C02-style run as well. 35 % of the runs add two users with distinct credentials whose names collide on the 4-byte hint under the nonce of one segment (birthday search at generation time) and an actor that authenticates the first, then presents the second from the same source; the reference decision compares hints at byte level.",
		assumptions: []string{"the reference decision is computed with the reference codec's key derivation, not with mieru's", "actors are real goroutines that run strictly one at a time (parked at yield sites), so the history order is total"},
		components:  map[string]string{"pkg/protocol/serveruser (Registry, source cache), pkg/cipher": "real code", "scheduler": "cooperative scheduler of the harness on hook H2 yield sites", "clock": "testing/synctest bubble", "first segments": "verifsim/refproto"},
		gen: func(master uint64, idx int, tier string) *spec.RunSpec {
			if idx%6 == 5 {
				// end-to-end attribution with several users
				s := props["C01"].gen(master^0x07, idx, tier)
				if idx%12 == 11 {
					s = props["C02"].gen(master^0x07, idx, tier)
				}
				s.Property = "C07"
				s.Profile = "c07-e2e:" + s.Profile
				return s
			}
			return genRegistrySpec(runSeed(master, "C07", idx), tier)
		},
	})
}

// vsim is the driver of the deterministic-simulation checks (DESIGN.md §2.5).
package main

import (
	"fmt"
	"os"
)

func usage() {
	fmt.Fprintln(os.Stderr, `usage:
  vsim setup                          build everything, warm caches, smoke test
  vsim check <Cxx> [--tier quick|thorough] [--seed N] [--runs N]
  vsim replay <file>                  re-execute one recorded run
  vsim run-spec <spec.json>           run one spec, print the result (debugging)
  vsim gen <Cxx> <index> [--seed N]   print the spec of run <index> (debugging)
  vsim selftest-determinism [--seeds N]`)
	os.Exit(2)
}

func main() {
	if len(os.Args) < 2 {
		usage()
	}
	switch os.Args[1] {
	case "setup":
		os.Exit(cmdSetup(os.Args[2:]))
	case "build":
		p, err := buildSim(false)
		if err != nil {
			fmt.Fprintln(os.Stderr, err)
			os.Exit(2)
		}
		fmt.Println(p)
	case "check":
		os.Exit(cmdCheck(os.Args[2:]))
	case "replay":
		os.Exit(cmdReplay(os.Args[2:]))
	case "run-spec":
		os.Exit(cmdRunSpec(os.Args[2:]))
	case "gen":
		os.Exit(cmdGen(os.Args[2:]))
	case "selftest-determinism":
		os.Exit(cmdSelftest(os.Args[2:]))
	default:
		usage()
	}
}

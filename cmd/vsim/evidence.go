package main

import (
	"encoding/json"
	"fmt"
	"os"
	"path/filepath"
	"sort"
	"time"
)

// writeEvidence writes /verif/evidence/<id>.json from what this invocation
// actually ran (EVIDENCE.schema.json). Every count is measured here.
func writeEvidence(p *propDef, tier string, master uint64, recs []*runRec, enumerated int, t0 time.Time, buildS float64, nviol int, knownHits map[string]int, harness []string) {
	wall := time.Since(t0).Seconds()
	faults := map[string]int{}
	probes := map[string]int{}
	states := map[string]struct{}{}
	hashes := map[string]struct{}{}
	ntHashes := map[string]struct{}{}
	var virtUs, checks, events int64
	segs := 0
	nontrivial := 0
	completed := 0
	crashes := 0
	capHits := 0
	profiles := map[string]int{}
	notes := map[string]int{}
	for _, r := range recs {
		res := r.res
		for _, nv := range res.Notes {
			notes[nv.Property+"/"+nv.Class]++
		}
		for k, v := range res.Faults {
			faults[k] += v
		}
		for k, v := range res.Probes {
			probes[k] += v
		}
		for _, s := range res.States {
			states[s] = struct{}{}
		}
		if res.EventHash != "" {
			hashes[res.EventHash] = struct{}{}
		}
		if res.NonTrivial && res.EventHash != "" {
			nontrivial++
			ntHashes[res.EventHash] = struct{}{}
		}
		if res.Completed {
			completed++
		}
		if res.Crash != "" {
			crashes++
		}
		if res.CapHit {
			capHits++
		}
		virtUs += res.VirtualUs
		checks += res.Checks
		events += res.Events
		segs += res.Segments
		profiles[r.spec.Profile]++
	}
	// samples: a few actual specs (compact) with their outcome
	var samples []any
	step := len(recs)/3 + 1
	for i := 0; i < len(recs); i += step {
		r := recs[i]
		samples = append(samples, map[string]any{
			"run_index": r.idx, "run_seed": r.spec.Seed, "profile": r.spec.Profile, "spec": compactSpec(r),
			"virtual_s": float64(r.res.VirtualUs) / 1e6, "events": r.res.Events, "event_hash": r.res.EventHash,
			"faults_fired": r.res.Faults, "sessions": r.res.Sessions, "violations": r.res.Violations, "notes": r.res.Notes,
		})
	}
	zeroProbes := []string{}
	for k, v := range probes {
		if v == 0 {
			zeroProbes = append(zeroProbes, k)
		}
	}
	sort.Strings(zeroProbes)
	runSecs := wall - buildS
	if runSecs <= 0 {
		runSecs = 0.001
	}
	cov := map[string]any{
		"evaluations":                         len(recs),
		"distinct_nontrivial":                 len(ntHashes),
		"rule":                                p.rule + " A run is non-trivial when its workload moved data in every scripted direction, at least one configured fault fired on in-flight state (faulty profiles), and the property's oracle evaluated at least one assertion; distinct = distinct event-order hashes (hash of every network event with its virtual time) among non-trivial runs.",
		"samples":                             samples,
		"enumerated_cases":                    enumerated,
		"nontrivial_runs":                     nontrivial,
		"completed_runs":                      completed,
		"crashed_runs":                        crashes,
		"virtual_cap_hits":                    capHits,
		"distinct_schedules":                  len(hashes),
		"distinct_abstract_states":            len(states),
		"simulated_seconds":                   float64(virtUs) / 1e6,
		"network_events":                      events,
		"segments_decoded_by_reference_codec": segs,
		"oracle_assertions":                   checks,
		"runs_per_hour":                       float64(len(recs)) / runSecs * 3600,
		"fault_kinds_fired":                   faults,
		"reach_probes":                        probes,
		"profiles":                            profiles,
		"known_finding_hits":                  knownHits,
		"other_oracle_notes":                  notes,
		"harness_problems":                    harness,
		"components":                          p.components,
		"build_s":                             buildS,
		"workers":                             workers(),
		"determinism_checked_pairs":           detPairs,
		"determinism_diverged":                detDiverged,
	}
	if p.extra != nil {
		p.extra(cov, recs)
	}
	ev := map[string]any{
		"property_id": p.id,
		"tier":        tier,
		"seed":        int64(master & 0x7fffffffffffffff),
		"level":       p.level,
		"coverage":    cov,
		"assumptions": p.assumptions,
		"wall_s":      wall,
		"violations":  nviol,
	}
	dir := filepath.Join(verifRoot, "evidence")
	os.MkdirAll(dir, 0o755)
	b, _ := json.MarshalIndent(ev, "", " ")
	if err := os.WriteFile(filepath.Join(dir, p.id+".json"), b, 0o644); err != nil {
		fmt.Fprintln(os.Stderr, "evidence:", err)
	}
}

func compactSpec(r *runRec) any {
	s := r.spec
	type sess struct {
		C2S, S2C  []int
		CloseMode string
		Closer    string
	}
	type cl struct {
		Transport string
		NoWait    bool
		Multiplex int
		MTU       int
		Pattern   any
		Sessions  []sess
	}
	var cs []cl
	for _, c := range s.Clients {
		x := cl{Transport: c.Transport, NoWait: c.NoWait, Multiplex: c.Multiplex, MTU: c.MTU, Pattern: c.Pattern}
		for _, se := range c.Sessions {
			x.Sessions = append(x.Sessions, sess{se.C2S.Writes, se.S2C.Writes, se.CloseMode, se.Closer})
		}
		cs = append(cs, x)
	}
	return map[string]any{"scenario": s.Scenario, "startOffsetUs": s.StartOffsetUs, "serverPattern": s.Server.Pattern, "serverMTU": s.Server.MTU, "users": len(s.Server.Users), "clients": cs, "net": s.Net, "extra": s.Extra}
}

package main

import (
	"encoding/hex"
	"fmt"
	"strings"
	"time"

	"verifsim/simnet"
	"verifsim/spec"
)

var fieldNames = [7]string{"nonce", "encMeta", "metaTag", "padding1", "body", "payloadTag", "padding2"}

// c04Shape builds a small transfer: a few segments each way, padding on,
// low-entropy varied, two sessions on one underlay (for splices).
func c04Shape(seed uint64, transport string, k int) *spec.RunSpec {
	r := simnet.NewRng(seed, "c04-shape")
	s := &spec.RunSpec{Property: "C04", Scenario: "stream", Seed: seed, VirtualCapS: 900, Profile: "c04-" + transport}
	s.StartOffsetUs = int64(r.Intn(200)) * 1000000
	s.Server = spec.Server{Users: genUsers(r, 2), IP: "10.0.0.1"}
	mode := k % 5
	rot := leRotations[r.Intn(len(leRotations))]
	pat := func() *spec.Pattern {
		return &spec.Pattern{Seed: pI32(r.Intn(1 << 20)), PadMid: pI32(r.Pick(3, 20, 255)), PadEnd: pI32(r.Pick(3, 20, 255)), LEMode: pI32(mode), LERot: pI32(rot), FragEnable: pB(false), NonceType: pI32(r.Intn(3))}
	}
	s.Server.Pattern = pat()
	if transport == "tcp" {
		s.Server.TCPPort = 5100
	} else {
		s.Server.UDPPort = 6100
		s.Server.MTU = 1400
	}
	mk := func(ci, user int) spec.Client {
		c := spec.Client{IP: fmt.Sprintf("10.0.1.%d", ci+1), User: user, Transport: transport, Pattern: pat(), Multiplex: 3, NoWait: r.Bool(0.3)}
		if transport == "udp" {
			c.MTU = 1400
		}
		return c
	}
	c0 := mk(0, 0)
	sizes := func() []int {
		n := 1 + r.Intn(3)
		var w []int
		for i := 0; i < n; i++ {
			w = append(w, r.Pick(1, 200, 1024, 1025, 1500, 3000, 5000))
		}
		return w
	}
	for i := 0; i < 2; i++ {
		se := spec.Session{ID: i, StartUs: int64(i * 300000), CloseMode: "barrier", Closer: []string{"client", "server"}[r.Intn(2)], CloseDelayUs: 1000}
		se.C2S = spec.Script{Writes: sizes(), GapsUs: []int64{int64(r.Pick(1, 1000, 30000))}, ReadBufs: []int{32768}, ReadGapUs: 1}
		se.S2C = spec.Script{Writes: sizes(), GapsUs: []int64{int64(r.Pick(1, 1000, 30000))}, ReadBufs: []int{32768}, ReadGapUs: 1}
		c0.Sessions = append(c0.Sessions, se)
	}
	c1 := mk(1, 1)
	se := spec.Session{ID: 0, StartUs: 100000, CloseMode: "barrier", Closer: "client", CloseDelayUs: 1000}
	se.C2S = spec.Script{Writes: []int{700}, GapsUs: []int64{1}, ReadBufs: []int{32768}, ReadGapUs: 1}
	se.S2C = spec.Script{Writes: []int{900}, GapsUs: []int64{1}, ReadBufs: []int{32768}, ReadGapUs: 1}
	if (k/2)%2 == 1 {
		// the second machine belongs to the same user and its session overlaps the others
		c1.User = 0
		se.StartUs = 0
		se.C2S = spec.Script{Writes: []int{700, 300, 1200}, GapsUs: []int64{150000}, ReadBufs: []int{32768}, ReadGapUs: 1}
		se.S2C = spec.Script{Writes: []int{900, 100, 1100}, GapsUs: []int64{170000}, ReadBufs: []int{32768}, ReadGapUs: 1}
	}
	c1.Sessions = append(c1.Sessions, se)
	s.Clients = []spec.Client{c0, c1}
	s.Net = spec.Net{LatencyUs: int64(r.Pick(1000, 5000, 20000)), ChunkMode: r.Pick(0, 1, 3)}
	if transport == "udp" {
		total := int64(sumAll(s))
		s.Liveness = &spec.Liveness{BoundUs: 120000000 + 10*(total/1100/16+1)*2*s.Net.LatencyUs}
	}
	return s
}

// c04Enumerate: for each shape run a fault-free reference pass that records the
// byte geometry of every segment (from the tap), then enumerate one in-path
// mutation per run: position (field class x offset) x mutation kind.
func c04Enumerate(bin string, master uint64, tier string) ([]*spec.RunSpec, []string) {
	var out []*spec.RunSpec
	var problems []string
	shapes := 4
	if tier == "thorough" {
		shapes = 12
	}
	for k := 0; k < shapes; k++ {
		transport := []string{"tcp", "udp"}[k%2]
		base := c04Shape(simnet.H(master, "c04-shape", uint64(k)), transport, k)
		ref := cloneSpec(base)
		ref.Dump = true
		rr := execRun(bin, ref, 3*time.Minute)
		if len(rr.Harness) > 0 || rr.Crash != "" || len(rr.Violations) > 0 || !rr.Completed {
			problems = append(problems, fmt.Sprintf("C04 reference pass of shape %d (%s) not clean: harness=%v crash=%q violations=%v completed=%v", k, transport, rr.Harness, rr.Crash, rr.Violations, rr.Completed))
			continue
		}
		r := simnet.NewRng(base.Seed, "c04-enum")
		add := func(desc string, mut func(s *spec.RunSpec)) {
			c := cloneSpec(base)
			mut(c)
			c.Profile = fmt.Sprintf("c04-%s-shape%d:%s", transport, k, desc)
			out = append(out, c)
		}
		wire := func(key string) []byte {
			b, _ := hex.DecodeString(rr.Wire[key])
			return b
		}
		for gi, g := range rr.Geo {
			g := g
			for fi := 0; fi < 7; fi++ {
				lo, hi := g.Spans[fi][0], g.Spans[fi][1]
				if hi <= lo {
					continue
				}
				pos := map[int64]bool{lo: true, hi - 1: true, (lo + hi) / 2: true}
				if tier == "thorough" {
					if hi-lo <= 48 {
						for p := lo; p < hi; p++ {
							pos[p] = true
						}
					} else {
						for i := 0; i < 6; i++ {
							pos[lo+int64(r.Intn(int(hi-lo)))] = true
						}
					}
				}
				for p := range pos {
					p := p
					for _, kind := range []string{"flip", "subst", "insert", "delete", "truncate"} {
						if tier != "thorough" {
							// quick tier: flips everywhere; the other kinds at the first byte of a field only
							if kind == "subst" || (kind != "flip" && p != lo) {
								continue
							}
						}
						kind := kind
						desc := fmt.Sprintf("seg%d(type%d,%s)/%s@%d/%s", gi, g.Type, []string{"c2s", "s2c"}[g.Dir], fieldNames[fi], p-g.Start, kind)
						add(desc, func(s *spec.RunSpec) { addMutation(s, transport, g, p, kind, byte(1<<r.Intn(8)), byte(r.Intn(256))) })
					}
				}
			}
			// whole-segment mutations
			if transport == "tcp" {
				// swap with the next segment of the same connection and direction
				for _, h := range rr.Geo[gi+1:] {
					if h.Conn == g.Conn && h.Dir == g.Dir {
						w := wire(fmt.Sprintf("tcp#%d/%d", g.Conn, g.Dir))
						if int64(len(w)) >= h.End {
							ins := append(append([]byte{}, w[h.Start:h.End]...), w[g.Start:g.End]...)
							add(fmt.Sprintf("seg%d/swap-with-next", gi), func(s *spec.RunSpec) {
								s.Net.Stream = append(s.Net.Stream, spec.StreamFault{Conn: g.Conn, Dir: g.Dir, Kind: "rewrite", Off: g.Start, Del: h.End - g.Start, Ins: ins})
							})
							add(fmt.Sprintf("seg%d/duplicate", gi), func(s *spec.RunSpec) {
								s.Net.Stream = append(s.Net.Stream, spec.StreamFault{Conn: g.Conn, Dir: g.Dir, Kind: "rewrite", Off: g.End, Del: 0, Ins: append([]byte{}, w[g.Start:g.End]...)})
							})
							add(fmt.Sprintf("seg%d/drop-whole", gi), func(s *spec.RunSpec) {
								s.Net.Stream = append(s.Net.Stream, spec.StreamFault{Conn: g.Conn, Dir: g.Dir, Kind: "rewrite", Off: g.Start, Del: g.End - g.Start})
							})
						}
						break
					}
				}
				// splice a segment recorded on another connection (other user) in its place
				for _, h := range rr.Geo {
					if h.Conn != g.Conn && h.Dir == g.Dir && h.Type == g.Type && h.AtUs < g.AtUs-int64(len(rr.Geo)) {
						w := wire(fmt.Sprintf("tcp#%d/%d", h.Conn, h.Dir))
						if int64(len(w)) >= h.End {
							ins := append([]byte{}, w[h.Start:h.End]...)
							add(fmt.Sprintf("seg%d/splice-from-conn%d", gi, h.Conn), func(s *spec.RunSpec) {
								s.Net.Stream = append(s.Net.Stream, spec.StreamFault{Conn: g.Conn, Dir: g.Dir, Kind: "rewrite", Off: g.Start, Del: g.End - g.Start, Ins: ins})
							})
						}
						break
					}
				}
			} else {
				// whole-datagram mutations: an inserted copy (at once, and after later datagrams
				// have passed), removal, and a delay that reorders it behind its successors
				lat := base.Net.LatencyUs
				add(fmt.Sprintf("dgram%d/duplicate-at-once", gi), func(s *spec.RunSpec) {
					s.Net.Rules = append(s.Net.Rules, spec.DgramRule{Client: g.Client, Flow: g.Scope, Dir: g.Dir, Index: g.Index, Kind: "dup", Copies: 1, ArgUs: 1})
				})
				add(fmt.Sprintf("dgram%d/duplicate-late", gi), func(s *spec.RunSpec) {
					s.Net.Rules = append(s.Net.Rules, spec.DgramRule{Client: g.Client, Flow: g.Scope, Dir: g.Dir, Index: g.Index, Kind: "dup", Copies: 2, ArgUs: 3 * lat})
				})
				add(fmt.Sprintf("dgram%d/drop-whole", gi), func(s *spec.RunSpec) {
					s.Net.Rules = append(s.Net.Rules, spec.DgramRule{Client: g.Client, Flow: g.Scope, Dir: g.Dir, Index: g.Index, Kind: "drop"})
				})
				add(fmt.Sprintf("dgram%d/reorder-late", gi), func(s *spec.RunSpec) {
					s.Net.Rules = append(s.Net.Rules, spec.DgramRule{Client: g.Client, Flow: g.Scope, Dir: g.Dir, Index: g.Index, Kind: "delay", ArgUs: 3 * lat})
				})
				// replace the datagram by one recorded from another session / another user's flow
				for _, h := range rr.Geo {
					if (h.Sess != g.Sess || h.Scope != g.Scope) && h.Dir == g.Dir && h.Type == g.Type && h.AtUs < g.AtUs {
						w := wire(fmt.Sprintf("%s/%d/%d", h.Scope, h.Dir, h.Index))
						if len(w) > 0 {
							add(fmt.Sprintf("dgram%d/splice-from-%s-sess%d", gi, h.Scope, h.Sess), func(s *spec.RunSpec) {
								s.Net.Rules = append(s.Net.Rules, spec.DgramRule{Client: g.Client, Flow: g.Scope, Dir: g.Dir, Index: g.Index, Kind: "corrupt", Off: 0, Del: 1 << 20, Ins: w})
							})
						}
						if h.Scope != g.Scope {
							break
						}
					}
				}
				// a datagram of a session that is still in progress on ANOTHER flow (another
				// device of the same user, or another user), any segment type
				for hi := range rr.Geo {
					h := &rr.Geo[hi]
					if h.Scope == g.Scope || h.Dir != g.Dir || h.AtUs >= g.AtUs {
						continue
					}
					live := false
					for _, k := range rr.Geo {
						if k.Sess == h.Sess && k.Scope == h.Scope && k.AtUs > g.AtUs+2*base.Net.LatencyUs {
							live = true
							break
						}
					}
					if !live {
						continue
					}
					if w := wire(fmt.Sprintf("%s/%d/%d", h.Scope, h.Dir, h.Index)); len(w) > 0 {
						hh := *h
						add(fmt.Sprintf("dgram%d/splice-from-live-session-on-%s(type%d seq%d)", gi, hh.Scope, hh.Type, hh.Seq), func(s *spec.RunSpec) {
							s.Net.Rules = append(s.Net.Rules, spec.DgramRule{Client: g.Client, Flow: g.Scope, Dir: g.Dir, Index: g.Index, Kind: "corrupt", Off: 0, Del: 1 << 20, Ins: w})
						})
						break
					}
				}
				// reflection: replace the datagram by an authentic datagram of the SAME session
				// that travelled in the opposite direction earlier (both directions share the
				// key; only the authenticated type field tells them apart). Prefer one that
				// carries the same sequence number, then any that is not behind.
				var best *spec.SegGeo
				for hi := range rr.Geo {
					h := &rr.Geo[hi]
					if h.Sess != g.Sess || h.Scope != g.Scope || h.Dir == g.Dir || h.AtUs >= g.AtUs {
						continue
					}
					switch {
					case best == nil:
						best = h
					case h.Seq == g.Seq && best.Seq != g.Seq:
						best = h
					case best.Seq != g.Seq && h.Seq >= g.Seq && (best.Seq < g.Seq || h.Seq < best.Seq):
						best = h
					}
				}
				if best != nil {
					if w := wire(fmt.Sprintf("%s/%d/%d", best.Scope, best.Dir, best.Index)); len(w) > 0 {
						add(fmt.Sprintf("dgram%d/reflect-opposite-direction(type%d seq%d for type%d seq%d)", gi, best.Type, best.Seq, g.Type, g.Seq), func(s *spec.RunSpec) {
							s.Net.Rules = append(s.Net.Rules, spec.DgramRule{Client: g.Client, Flow: g.Scope, Dir: g.Dir, Index: g.Index, Kind: "corrupt", Off: 0, Del: 1 << 20, Ins: w})
						})
					}
				}
			}
		}
	}
	limit := 1400
	if tier == "thorough" {
		// the full list of the 12 thorough shapes is about 200 000 runs (two hours on 16
		// cores): the thorough tier takes a strided fifth of it, a different fifth per seed
		limit = 40000
	}
	if len(out) > limit {
		// Whole-segment mutations (duplicate, drop, swap, reorder, reflect, splice: a handful per
		// segment) are always run; the byte-level ones (field x offset x kind: the bulk of the
		// list) are thinned to a strided subset whose offset comes from the seed.
		var whole, bytewise []*spec.RunSpec
		for _, c := range out {
			if strings.Contains(c.Profile, ")/") && strings.Contains(c.Profile, "@") {
				bytewise = append(bytewise, c)
			} else {
				whole = append(whole, c)
			}
		}
		room := limit - len(whole)
		if room < limit/4 {
			room = limit / 4
		}
		sub := whole
		if len(bytewise) > room {
			stride := len(bytewise)/room + 1
			off := int(master % uint64(stride))
			for i := off; i < len(bytewise); i += stride {
				sub = append(sub, bytewise[i])
			}
		} else {
			sub = append(sub, bytewise...)
		}
		out = sub
	}
	return out, problems
}

func addMutation(s *spec.RunSpec, transport string, g spec.SegGeo, p int64, kind string, bit, rnd byte) {
	if transport == "tcp" {
		f := spec.StreamFault{Conn: g.Conn, Dir: g.Dir, Kind: "rewrite", Off: p}
		switch kind {
		case "flip":
			f.Kind, f.Xor = "xor", bit
		case "subst":
			f.Kind, f.Xor = "xor", 0xff
		case "insert":
			f.Del, f.Ins = 0, []byte{rnd}
		case "delete":
			f.Del = 1
		case "truncate":
			f = spec.StreamFault{Conn: g.Conn, Dir: g.Dir, Kind: "cut-fin", Off: p}
		}
		s.Net.Stream = append(s.Net.Stream, f)
		return
	}
	rule := spec.DgramRule{Client: g.Client, Flow: g.Scope, Dir: g.Dir, Index: g.Index, Kind: "corrupt", Off: p}
	switch kind {
	case "flip":
		rule.Xor = bit
	case "subst":
		rule.Xor = 0xff
	case "insert":
		rule.Ins = []byte{rnd}
	case "delete":
		rule.Del = 1
	case "truncate":
		rule.Del = 1 << 20
	}
	s.Net.Rules = append(s.Net.Rules, rule)
}

func init() {
	register(&propDef{
		id: "C04", level: "fault_enumeration", quickRuns: 48, thoroughRuns: 1500, wallPerRun: 5 * time.Minute,
		rule:        "For each traffic shape (two multiplexed sessions of one user plus a second user's session, padding on, low-entropy mode varied, TCP or UDP) a fault-free reference pass records the byte geometry of every segment from the tap; then ONE in-path mutation per run is enumerated: every segment x every field class present (nonce, encrypted metadata, metadata tag, middle padding, payload body, payload tag, end padding) x offsets (first/middle/last byte; every byte of short fields and random interior bytes in the thorough tier) x kind (bit flip, byte substitution, 1-byte insertion, 1-byte deletion, truncation) plus whole-segment swap, duplication, removal and splices from another session / another user's connection. The enumerated list is exhaustive for the stated positions of the chosen shapes, and each tier runs a strided subset of it whose offset depends on the seed (quick: 1400; thorough: 40 000 of about 200 000); random C01/C02-style shapes with one random mutation are added on top. Oracle: TCP - bytes read are a prefix of the PRF stream; UDP - the stream completes intact within the progress bound (a corrupted datagram counts as one loss); never a differing byte; no crash. UDP splices also cross directions and flows: a datagram is replaced by an authentic earlier datagram of the SAME session that travelled the other way (same sequence number if there is one), and by a datagram of a session still in progress on another flow (a second machine of the same user, or another user); datagram rules are scoped to one flow.",
		assumptions: []string{"one seed = one execution, so the geometry of the reference pass is valid up to the mutation point (determinism self-test)", "positions are exhaustive only for the shapes listed in the evidence file"},
		components:  realComponents,
		enumerate:   c04Enumerate,
		gen: func(master uint64, idx int, tier string) *spec.RunSpec {
			// random shapes: a C01/C02-style run with one random mutation
			seed := runSeed(master, "C04", idx)
			r := simnet.NewRng(seed, "c04-rand")
			tr := []string{"tcp", "udp"}[idx%2]
			s := genStreamSpec("C04", seed, streamGenOpts{transport: tr, maxBytes: r.Pick(3000, 30000, 100000), maxSessions: 3, closeMode: "barrier", rich: true})
			s.Profile = "c04-random-" + tr
			total := int64(sumAll(s))
			if tr == "tcp" {
				conn := 0
				off := int64(r.Intn(int(total) + 200))
				f := spec.StreamFault{Conn: conn, Dir: r.Intn(2), Kind: "xor", Off: off, Xor: byte(1 << r.Intn(8))}
				switch r.Intn(4) {
				case 1:
					f = spec.StreamFault{Conn: conn, Dir: f.Dir, Kind: "rewrite", Off: off, Del: int64(r.Intn(3)), Ins: []byte{byte(r.Intn(256))}}
				case 2:
					f = spec.StreamFault{Conn: conn, Dir: f.Dir, Kind: "rewrite", Off: off, Del: int64(1 + r.Intn(100))}
				case 3:
					f = spec.StreamFault{Conn: conn, Dir: f.Dir, Kind: "cut-fin", Off: off}
				}
				s.Net.Stream = append(s.Net.Stream, f)
			} else {
				n := 1 + r.Intn(3)
				for i := 0; i < n; i++ {
					rule := spec.DgramRule{Client: 0, Dir: r.Intn(2), Index: r.Intn(int(total/1000) + 6), Kind: "corrupt", Off: int64(r.Intn(1400)), Xor: byte(1 << r.Intn(8))}
					if r.Bool(0.3) {
						rule.Xor, rule.Del = 0, int64(1+r.Intn(50))
					}
					s.Net.Rules = append(s.Net.Rules, rule)
				}
				s.Liveness = &spec.Liveness{BoundUs: 120000000 + 10*(total/1100/16+1)*2*(s.Net.LatencyUs+s.Net.JitterUs)}
			}
			return s
		},
		extra: func(ev map[string]any, recs []*runRec) {
			byShape := map[string]int{}
			for _, r := range recs {
				p := r.spec.Profile
				for i := 0; i < len(p); i++ {
					if p[i] == ':' {
						p = p[:i]
						break
					}
				}
				byShape[p]++
			}
			ev["enumerated_mutations_per_shape"] = byShape
			ev["exhaustive"] = false
			ev["exhaustive_note"] = "positions x kinds are enumerated completely for the listed shapes; the space of shapes is sampled"
		},
	})
}

package main

import (
	"encoding/json"
	"os/exec"
	"strings"
	"time"

	"verifsim/spec"
)

func gitOut(dir string, args ...string) string {
	c := exec.Command("git", append([]string{"-C", dir}, args...)...)
	b, _ := c.Output()
	return strings.TrimSpace(string(b))
}

func cloneSpec(s *spec.RunSpec) *spec.RunSpec {
	b, _ := json.Marshal(s)
	var c spec.RunSpec
	json.Unmarshal(b, &c)
	return &c
}

func fails(bin string, s *spec.RunSpec, prop, sig string, wall time.Duration) bool {
	res := execRun(bin, s, wall)
	for _, v := range violationsOf(prop, res) {
		if v.Class == sig {
			return true
		}
	}
	return false
}

// minimise delta-debugs a failing spec while the same violation class
// persists: drop clients/sessions/writes, shrink sizes, simplify patterns and
// link parameters, turn faults into plain deliveries. Bounded by re-runs and
// wall time. The result is re-run once more in a fresh process; if that does
// not reproduce, the original spec is returned with verified=false.
func minimise(bin string, orig *spec.RunSpec, prop, sig string, wall time.Duration) (*spec.RunSpec, bool, int) {
	const maxTries = 200
	deadline := time.Now().Add(90 * time.Second)
	tries := 0
	cur := cloneSpec(orig)
	// the original must reproduce first (determinism): otherwise ship it unminimised
	tries++
	if !fails(bin, cur, prop, sig, wall) {
		return orig, false, tries
	}
	try := func(mut func(s *spec.RunSpec) bool) bool {
		if tries >= maxTries || time.Now().After(deadline) {
			return false
		}
		cand := cloneSpec(cur)
		if !mut(cand) {
			return false
		}
		tries++
		if fails(bin, cand, prop, sig, wall) {
			cur = cand
			return true
		}
		return false
	}
	for pass := 0; pass < 3; pass++ {
		progress := false
		// 1. drop whole clients
		for ci := len(cur.Clients) - 1; ci >= 0 && len(cur.Clients) > 1; ci-- {
			ci := ci
			if try(func(s *spec.RunSpec) bool {
				if ci >= len(s.Clients) || len(s.Clients) <= 1 {
					return false
				}
				s.Clients = append(s.Clients[:ci], s.Clients[ci+1:]...)
				return true
			}) {
				progress = true
			}
		}
		// 2. drop sessions
		for ci := range cur.Clients {
			for si := len(cur.Clients[ci].Sessions) - 1; si >= 0; si-- {
				ci, si := ci, si
				if try(func(s *spec.RunSpec) bool {
					c := &s.Clients[ci]
					if si >= len(c.Sessions) || len(c.Sessions) <= 1 {
						return false
					}
					c.Sessions = append(c.Sessions[:si], c.Sessions[si+1:]...)
					return true
				}) {
					progress = true
				}
			}
		}
		// 3. faults off, kind by kind
		muts := []func(s *spec.RunSpec) bool{
			func(s *spec.RunSpec) bool { ok := s.Net.DropRate > 0; s.Net.DropRate = 0; return ok },
			func(s *spec.RunSpec) bool { ok := s.Net.DupRate > 0; s.Net.DupRate = 0; return ok },
			func(s *spec.RunSpec) bool { ok := s.Net.DelayRate > 0; s.Net.DelayRate = 0; return ok },
			func(s *spec.RunSpec) bool { ok := s.Net.CorruptRate > 0; s.Net.CorruptRate = 0; return ok },
			func(s *spec.RunSpec) bool { ok := len(s.Net.Blackholes) > 0; s.Net.Blackholes = nil; return ok },
			func(s *spec.RunSpec) bool { ok := s.Net.JitterUs > 0; s.Net.JitterUs = 0; return ok },
			func(s *spec.RunSpec) bool { ok := s.Net.BytesPerSec > 0; s.Net.BytesPerSec = 0; return ok },
			func(s *spec.RunSpec) bool { ok := s.Net.ChunkMode != 0; s.Net.ChunkMode = 0; return ok },
			func(s *spec.RunSpec) bool { ok := s.Net.DribbleHead != 0; s.Net.DribbleHead = 0; return ok },
			func(s *spec.RunSpec) bool { ok := s.Net.RecvBuf != 0; s.Net.RecvBuf = 0; return ok },
			func(s *spec.RunSpec) bool { ok := len(s.Yields) > 0; s.Yields = nil; return ok },
			func(s *spec.RunSpec) bool { ok := s.Server.Pattern != nil; s.Server.Pattern = nil; return ok },
			func(s *spec.RunSpec) bool { ok := s.StartOffsetUs != 0; s.StartOffsetUs = 0; return ok },
			func(s *spec.RunSpec) bool { ok := s.Server.HintMandatory; s.Server.HintMandatory = false; return ok },
		}
		for _, m := range muts {
			if try(m) {
				progress = true
			}
		}
		for i := len(cur.Net.Rules) - 1; i >= 0; i-- {
			i := i
			if try(func(s *spec.RunSpec) bool {
				if i >= len(s.Net.Rules) {
					return false
				}
				s.Net.Rules = append(s.Net.Rules[:i], s.Net.Rules[i+1:]...)
				return true
			}) {
				progress = true
			}
		}
		for i := len(cur.Net.Stream) - 1; i >= 0; i-- {
			i := i
			if try(func(s *spec.RunSpec) bool {
				if i >= len(s.Net.Stream) {
					return false
				}
				s.Net.Stream = append(s.Net.Stream[:i], s.Net.Stream[i+1:]...)
				return true
			}) {
				progress = true
			}
		}
		if cur.Attack != nil {
			for i := len(cur.Attack.Probes) - 1; i >= 0; i-- {
				i := i
				if try(func(s *spec.RunSpec) bool {
					if s.Attack == nil || i >= len(s.Attack.Probes) {
						return false
					}
					s.Attack.Probes = append(s.Attack.Probes[:i], s.Attack.Probes[i+1:]...)
					return true
				}) {
					progress = true
				}
			}
			for i := range cur.Attack.Probes {
				i := i
				for cur.Attack.Probes[i].Count > 1 {
					if !try(func(s *spec.RunSpec) bool {
						if i >= len(s.Attack.Probes) || s.Attack.Probes[i].Count <= 1 {
							return false
						}
						s.Attack.Probes[i].Count /= 2
						return true
					}) {
						break
					}
					progress = true
				}
			}
		}
		// 4. per client simplifications
		for ci := range cur.Clients {
			ci := ci
			if try(func(s *spec.RunSpec) bool { ok := s.Clients[ci].Pattern != nil; s.Clients[ci].Pattern = nil; return ok }) {
				progress = true
			}
			if try(func(s *spec.RunSpec) bool { ok := s.Clients[ci].NoWait; s.Clients[ci].NoWait = false; return ok }) {
				progress = true
			}
			if try(func(s *spec.RunSpec) bool { ok := s.Clients[ci].Multiplex != 0; s.Clients[ci].Multiplex = 0; return ok }) {
				progress = true
			}
		}
		// 5. shrink scripts
		for ci := range cur.Clients {
			for si := range cur.Clients[ci].Sessions {
				for d := 0; d < 2; d++ {
					ci, si, d := ci, si, d
					get := func(s *spec.RunSpec) *spec.Script {
						if d == 0 {
							return &s.Clients[ci].Sessions[si].C2S
						}
						return &s.Clients[ci].Sessions[si].S2C
					}
					// drop writes from the end
					for len(get(cur).Writes) > 1-d {
						if !try(func(s *spec.RunSpec) bool {
							sc := get(s)
							if len(sc.Writes) <= 1-d {
								return false
							}
							sc.Writes = sc.Writes[:len(sc.Writes)-1]
							return true
						}) {
							break
						}
						progress = true
					}
					// halve sizes
					for wi := range get(cur).Writes {
						wi := wi
						for get(cur).Writes[wi] > 1 {
							if !try(func(s *spec.RunSpec) bool {
								sc := get(s)
								if wi >= len(sc.Writes) || sc.Writes[wi] <= 1 {
									return false
								}
								sc.Writes[wi] /= 2
								return true
							}) {
								break
							}
							progress = true
						}
					}
					if try(func(s *spec.RunSpec) bool {
						sc := get(s)
						ok := len(sc.ReadBufs) != 1 || sc.ReadBufs[0] != 32768
						sc.ReadBufs = []int{32768}
						sc.GapsUs = []int64{1}
						return ok
					}) {
						progress = true
					}
				}
				ci, si := ci, si
				if try(func(s *spec.RunSpec) bool {
					se := &s.Clients[ci].Sessions[si]
					ok := se.StartUs != 0
					se.StartUs = 0
					return ok
				}) {
					progress = true
				}
			}
		}
		if !progress {
			break
		}
	}
	// final confirmation in a fresh process
	tries++
	if fails(bin, cur, prop, sig, wall) {
		return cur, true, tries
	}
	return orig, false, tries
}

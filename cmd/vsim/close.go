package main

import (
	"fmt"
	"time"

	"verifsim/simnet"
	"verifsim/spec"
)

// genBacklogSpec: the server application has stopped calling Accept; clients keep opening sessions
// until every backlog between the network and Accept is full (64 + 1 + 64 places) and the event
// loop is parked handing over one more; then the server is stopped. Stop must still return.
func genBacklogSpec(seed uint64, r *simnet.Rng) *spec.RunSpec {
	tr := []string{"tcp", "udp", "udp"}[r.Intn(3)]
	s := &spec.RunSpec{Property: "C15", Scenario: "close", Seed: seed, VirtualCapS: 1500, Profile: "c15-" + tr + "-accept-backlog-full-then-stop"}
	s.StartOffsetUs = genStartOffset(r)
	s.Server = spec.Server{Users: genUsers(r, 1), IP: "10.0.0.1", NoAccept: true, RawMux: r.Bool(0.5)}
	if tr == "tcp" {
		s.Server.TCPPort = 5500
	} else {
		s.Server.UDPPort = 6500
		s.Server.MTU = 1400
	}
	c := spec.Client{IP: "10.0.1.1", User: 0, Transport: tr, Multiplex: r.Pick(0, 3), NoWait: !s.Server.RawMux}
	if tr == "udp" {
		c.MTU = 1400
	}
	n := r.Pick(60, 131, 140, 140, 170)
	cs := &spec.CloseSpec{}
	for i := 0; i < n; i++ {
		c.Sessions = append(c.Sessions, spec.Session{ID: i, StartUs: int64(i) * 700, CloseMode: "none"})
		cs.Actors = append(cs.Actors, spec.Actor{Client: 0, Session: i, Side: "client", Role: "writer", Ops: []spec.AOp{{Op: "write", N: r.Pick(1, 100)}}})
	}
	s.Clients = []spec.Client{c}
	s.Net = spec.Net{LatencyUs: int64(r.Pick(200, 2000))}
	stopAt := int64(n)*700 + int64(r.Pick(500000, 3000000, 8000000))
	cs.Events = []spec.Event{{AtUs: stopAt, Kind: "server-stop"}}
	cs.HorizonUs = stopAt + 40000000
	s.Close = cs
	return s
}

func genCloseSpec(seed uint64, tier string) *spec.RunSpec {
	r := simnet.NewRng(seed, "c15")
	if r.Bool(0.09) {
		return genBacklogSpec(seed, r)
	}
	// the profile is drawn first (from its own stream): some profiles bias the other choices
	profile := simnet.NewRng(seed, "c15-profile").Pick(0, 0, 1, 2, 3, 4, 5, 5, 6, 6, 7, 7) // 0 plain close, 1 back-pressure, 2 deadlines, 3 stop events, 4 underlay failure, 5 stop/failure under back-pressure, 6 one-way use, 7 stop while the network is silent
	tr := []string{"tcp", "udp"}[r.Intn(2)]
	if profile == 6 && r.Bool(0.5) {
		tr = "tcp" // a reader on TCP is never released by an idle time-out: a lost close shows as a hang
	}
	s := &spec.RunSpec{Property: "C15", Scenario: "close", Seed: seed, VirtualCapS: 1500}
	s.StartOffsetUs = genStartOffset(r)
	s.Server = spec.Server{Users: genUsers(r, 2), IP: "10.0.0.1", Pattern: genPattern(r, tr == "tcp", false)}
	if tr == "tcp" {
		s.Server.TCPPort = 5500
	} else {
		s.Server.UDPPort = 6500
		s.Server.MTU = 1400
	}
	nClients := 1 + r.Intn(2)
	nSess := 1 + r.Intn(4)
	for ci := 0; ci < nClients; ci++ {
		c := spec.Client{IP: fmt.Sprintf("10.0.1.%d", ci+1), User: r.Intn(2), Transport: tr, Multiplex: r.Pick(0, 3, 3), NoWait: false, Pattern: genPattern(r, tr == "tcp", false)}
		if tr == "udp" {
			c.MTU = 1400
		}
		s.Clients = append(s.Clients, c)
	}
	for k := 0; k < nSess; k++ {
		ci := r.Intn(nClients)
		c := &s.Clients[ci]
		c.Sessions = append(c.Sessions, spec.Session{ID: len(c.Sessions), StartUs: int64(r.Pick(0, 0, 1000, 200000)), CloseMode: "none"})
	}
	var keep []spec.Client
	for _, c := range s.Clients {
		if len(c.Sessions) > 0 {
			keep = append(keep, c)
		}
	}
	s.Clients = keep
	for i := range s.Clients {
		s.Clients[i].IP = fmt.Sprintf("10.0.1.%d", i+1)
	}
	s.Net = spec.Net{LatencyUs: int64(r.Pick(200, 2000, 20000)), ChunkMode: r.Pick(0, 1), RecvBuf: r.Pick(0, 4096, 65536)}
	if tr == "udp" && r.Bool(0.3) {
		s.Net.DropRate = 0.05 * r.Float()
	}
	// a third of the runs in 0-RTT handshake mode, a quarter straight on the multiplexers: there a
	// client session is still waiting for the open-session response when it is written and closed
	if r.Bool(0.25) || (profile == 6 && r.Bool(0.4)) {
		s.Server.RawMux = true
	} else if r.Bool(0.4) || profile == 6 {
		for i := range s.Clients {
			s.Clients[i].NoWait = true
		}
	}
	cs := &spec.CloseSpec{HorizonUs: 120000000}
	idleChoices := []int64{0, 1000, 300000, 2000000, 4900000, 5100000, 7000000, 12000000, 65000000}
	s.Profile = fmt.Sprintf("c15-%s-%s", tr, []string{"close", "backpressure", "deadlines", "stop", "failure", "backpressure-stop", "oneway", "silent-then-stop"}[profile])
	bpWriterSide := ""
	for ci, c := range s.Clients {
		for _, se := range c.Sessions {
			add := func(side, role string, ops ...spec.AOp) {
				cs.Actors = append(cs.Actors, spec.Actor{Client: ci, Session: se.ID, Side: side, Role: role, Ops: ops})
			}
			idle := idleChoices[r.Intn(len(idleChoices))]
			closeAt := int64(r.Pick(1000, 50000, 500000, 3000000)) + idle
			closer := []string{"client", "server"}[r.Intn(2)]
			if profile == 6 && r.Bool(0.5) {
				closer = "client" // the end that writes and closes without reading
			}
			other := map[string]string{"client": "server", "server": "client"}[closer]
			switch profile {
			case 1: // the peer application stops reading; the local writer fills every queue and blocks
				writerSide, readerSide := closer, other
				add(writerSide, "writer", spec.AOp{Op: "write", N: r.Pick(1, 1, 200, 1400), Count: r.Pick(3000, 4500, 6000)})
				add(readerSide, "stuck-reader", spec.AOp{Op: "read", N: 64, Count: r.Pick(0, 1, 3)}, spec.AOp{Op: "sleep", Us: 400000000})
				add(writerSide, "closer", spec.AOp{Op: "sleep", Us: int64(r.Pick(20000000, 40000000))}, spec.AOp{Op: "close"})
				add(readerSide, "closer", spec.AOp{Op: "sleep", Us: 80000000}, spec.AOp{Op: "close"})
			case 5: // as 1, but nobody closes the session: a Stop or an underlay failure arrives while the writer is blocked
				writerSide, readerSide := closer, other
				bpWriterSide = writerSide
				// enough volume to fill the peer's session queue AND the transport underneath, so
				// that the sender's output loop itself is blocked in the connection's Write
				if s.Net.RecvBuf == 0 {
					s.Net.RecvBuf = r.Pick(4096, 65536)
				}
				add(writerSide, "writer", spec.AOp{Op: "write", N: r.Pick(1, 200, 1400, 1400), Count: r.Pick(4500, 6000)})
				add(readerSide, "stuck-reader", spec.AOp{Op: "read", N: 64, Count: r.Pick(0, 1, 3)}, spec.AOp{Op: "sleep", Us: 400000000})
			case 6: // one-way use: one end only writes (never calls Read) and closes; the other end only reads
				writerSide, readerSide := closer, other
				nw := r.Pick(0, 1, 1, 3)
				ops := []spec.AOp{}
				if nw > 0 {
					ops = append(ops, spec.AOp{Op: "write", N: r.Pick(1, 100, 1024, 1025, 5000), Count: nw})
				}
				ops = append(ops, spec.AOp{Op: "sleep", Us: int64(r.Pick(1, 1000, 30000, 200000, 3000000)) + idle}, spec.AOp{Op: "close"})
				add(writerSide, "writer-closer", ops...)
				add(readerSide, "reader", spec.AOp{Op: "read", N: r.Pick(64, 4096), Count: 1000000})
				add(readerSide, "closer", spec.AOp{Op: "sleep", Us: closeAt + 200000000}, spec.AOp{Op: "close"}) // later than the 3-minute bound for a Read to notice the peer's Close
			case 2: // deadlines around multi-call reads and writes
				side := []string{"client", "server"}[r.Intn(2)]
				oth := map[string]string{"client": "server", "server": "client"}[side]
				d := int64(r.Pick(50000, 500000, 2000000, 15000000, 30000000))
				ops := []spec.AOp{}
				if r.Bool(0.6) {
					ops = append(ops, spec.AOp{Op: "write", N: r.Pick(1, 100, 2000)})
				}
				ops = append(ops, spec.AOp{Op: []string{"setrdl", "setdl"}[r.Intn(2)], Us: d}, spec.AOp{Op: "read", N: 4096}, spec.AOp{Op: "read", N: 4096}, spec.AOp{Op: "read", N: 4096})
				if r.Bool(0.5) {
					ops = append(ops, spec.AOp{Op: "setrdl", Us: 0}, spec.AOp{Op: "sleep", Us: 100000})
				}
				add(side, "deadliner", ops...)
				// the peer writes a little, late or never
				if r.Bool(0.5) {
					add(oth, "writer", spec.AOp{Op: "sleep", Us: int64(r.Pick(1000, int(d/2), int(2*d)))}, spec.AOp{Op: "write", N: r.Pick(1, 50)})
				}
				add(oth, "reader", spec.AOp{Op: "read", N: 4096, Count: 1000000})
				add(closer, "closer", spec.AOp{Op: "sleep", Us: 3*d + 60000000}, spec.AOp{Op: "close"})
				add(other, "closer", spec.AOp{Op: "sleep", Us: 3*d + 70000000}, spec.AOp{Op: "close"})
			default:
				// both ends read and write concurrently; one side closes (maybe twice, maybe both sides)
				for _, side := range []string{"client", "server"} {
					add(side, "writer", spec.AOp{Op: "sleep", Us: int64(r.Pick(1, 1000, int(idle)))}, spec.AOp{Op: "write", N: r.Pick(1, 1000, 20000, 100000), Count: r.Pick(1, 3, 20)})
					add(side, "reader", spec.AOp{Op: "read", N: r.Pick(64, 4096, 65536), Count: 1000000}) // reads until an error
				}
				if profile == 0 {
					add(closer, "closer", spec.AOp{Op: "sleep", Us: closeAt}, spec.AOp{Op: "close"}, spec.AOp{Op: "sleep", Us: int64(r.Pick(1, 1000, 3000000))}, spec.AOp{Op: "close"})
					if r.Bool(0.4) {
						add(other, "closer", spec.AOp{Op: "sleep", Us: closeAt + int64(r.Pick(0, 1, 500, 100000))}, spec.AOp{Op: "close"})
					} else {
						add(other, "closer", spec.AOp{Op: "sleep", Us: closeAt + 60000000}, spec.AOp{Op: "close"})
					}
				}
			}
		}
	}
	evAt := int64(r.Pick(5000, 300000, 2000000, 4900000, 5200000, 9000000, 30000000))
	switch profile {
	case 3:
		kind := []string{"client-stop", "server-stop"}[r.Intn(2)]
		if r.Bool(0.5) {
			// land the Stop inside a dial: between the start of a session of client 0 and the
			// end of its open / SOCKS handshake (one to three round trips later)
			se := s.Clients[0].Sessions[r.Intn(len(s.Clients[0].Sessions))]
			lat := s.Net.LatencyUs
			evAt = se.StartUs + int64(r.Pick(1, int(lat/2), int(lat), int(3*lat/2), int(2*lat), int(3*lat), int(4*lat)))
			s.Profile += "-during-dial"
		}
		cs.Events = append(cs.Events, spec.Event{AtUs: evAt, Kind: kind, Arg: 0})
	case 7:
		// the network goes silent (nothing arrives any more, so no datagram or byte wakes a
		// blocked read) and shortly afterwards one side is stopped while its sessions are live
		hole := "udp-blackhole"
		if tr == "tcp" {
			hole = "blackhole"
		}
		cs.Events = append(cs.Events, spec.Event{AtUs: evAt, Kind: hole, Arg: 0})
		cs.Events = append(cs.Events, spec.Event{AtUs: evAt + int64(r.Pick(1000, 100000, 1000000, 3000000)), Kind: []string{"client-stop", "server-stop", "server-stop"}[r.Intn(3)], Arg: 0})
	case 5:
		evAt = int64(r.Pick(20000000, 40000000))
		kind := bpWriterSide + "-stop"
		switch r.Intn(4) {
		case 0:
			kind = map[string]string{"client": "server-stop", "server": "client-stop"}[bpWriterSide]
		case 1:
			if tr == "tcp" {
				kind = "reset"
			}
		}
		cs.Events = append(cs.Events, spec.Event{AtUs: evAt, Kind: kind, Arg: 0})
	case 4:
		if tr == "tcp" {
			cs.Events = append(cs.Events, spec.Event{AtUs: evAt, Kind: []string{"reset", "reset", "blackhole"}[r.Intn(3)], Arg: 0})
		} else {
			cs.Events = append(cs.Events, spec.Event{AtUs: evAt, Kind: "udp-blackhole"})
		}
	}
	// horizon: long enough for every scripted sleep plus the bound, no longer (UDP sessions tick every virtual ms)
	var longest int64
	for _, a := range cs.Actors {
		var t int64
		for _, op := range a.Ops {
			if op.Op == "sleep" && op.Us < 300000000 {
				t += op.Us
			}
			if op.Op == "setrdl" || op.Op == "setdl" {
				t += 3 * op.Us
			}
		}
		if t > longest {
			longest = t
		}
	}
	cs.HorizonUs = longest + 25000000
	switch profile {
	case 3, 5, 7:
		cs.HorizonUs = max(cs.HorizonUs, evAt+30000000)
	case 4:
		cs.HorizonUs = max(cs.HorizonUs, evAt+100000000)
	}
	s.Close = cs
	return s
}

func init() {
	register(&propDef{
		id: "C15", level: "exploration", quickRuns: 96, thoroughRuns: 4000, wallPerRun: 5 * time.Minute, race: true,
		rule:        "1-4 sessions on 1-2 real clients and a real server (TCP or UDP); independent actor goroutines at both ends issue Write, Read, SetDeadline/SetReadDeadline and Close concurrently; profiles: plain close (once, twice, both sides, after idle periods on both sides of the 5 s housekeeping tick), back-pressure (the peer application stops reading, the local writer fills every queue, then Close), deadline sequences around multi-call reads, client Stop / server Stop at a chosen instant, abrupt underlay failure (TCP reset, TCP black-hole, UDP black-hole). Oracles over the recorded calls: every Close/Stop returns within 10 s + 2 s x sessions; every call blocked on an affected connection returns within that bound after the close/stop/reset (3 min after a silent black-hole); a deadline set before a call bounds that call and every later one until changed, and nothing but a user deadline times a call out; 5 virtual minutes after both ends are stopped no goroutine outside the harness runs mieru code; the virtual-time cap firing with everything blocked is a deadlock; a quarter of the runs are repeated under the race detector. Profile backpressure-stop: the writer is blocked on a peer that stopped reading when a client Stop, server Stop or TCP reset arrives. Half of the stop-profile events land inside a dial in flight (1..4 latencies after a session starts).",
		assumptions: []string{"races are found by the race detector's happens-before analysis of single-P schedules, not by true parallelism", "Stop is expected to end established sessions' activity (the goroutine check runs after both Stop calls)"},
		components:  realComponents,
		gen: func(master uint64, idx int, tier string) *spec.RunSpec {
			return genCloseSpec(runSeed(master, "C15", idx), tier)
		},
	})
}

package main

import (
	"bytes"
	"context"
	"encoding/json"
	"fmt"
	"os"
	"os/exec"
	"path/filepath"
	"regexp"
	"runtime"
	"strings"
	"sync/atomic"
	"syscall"
	"time"

	"verifsim/spec"
)

var scratchSeq atomic.Int64

func scratchDir() string {
	d := filepath.Join(buildDir(), "scratch", fmt.Sprintf("p%d", os.Getpid()))
	os.MkdirAll(d, 0o755)
	return d
}

// execRun executes one spec in a fresh OS process and returns its result.
// A process that dies (panic, fatal, kill) yields a result with Crash set; a
// wall-clock watchdog yields Harness "wall-timeout".
func execRun(bin string, s *spec.RunSpec, wallLimit time.Duration) *spec.RunResult {
	id := scratchSeq.Add(1)
	dir := scratchDir()
	sp := filepath.Join(dir, fmt.Sprintf("spec-%d.json", id))
	op := filepath.Join(dir, fmt.Sprintf("out-%d.json", id))
	defer os.Remove(sp)
	defer os.Remove(op)
	defer os.Remove(op + ".tmp")
	b, _ := json.Marshal(s)
	if err := os.WriteFile(sp, b, 0o644); err != nil {
		return &spec.RunResult{Property: s.Property, Seed: s.Seed, Harness: []string{"write spec: " + err.Error()}}
	}
	ctx, cancel := context.WithTimeout(context.Background(), wallLimit)
	defer cancel()
	cmd := exec.CommandContext(ctx, bin, "-test.run", "^TestRun$", "-test.timeout", "0")
	// The collector's timing must not perturb the schedule: it stays off. Race-detector runs
	// of heavy specs would otherwise grow without bound, so there a memory limit lets the
	// collector step in only when 3 GiB are reached (rare; such a run may then not replay).
	cmd.Env = append(os.Environ(),
		"VSIM_SPEC="+sp, "VSIM_OUT="+op,
		"GOMAXPROCS=1", "GOGC=off", "GODEBUG=asyncpreemptoff=1,randseednop=0",
		"GOTRACEBACK=all")
	if strings.Contains(filepath.Base(bin), ".race.") {
		cmd.Env = append(cmd.Env, "GOMEMLIMIT=3GiB")
	}
	cmd.SysProcAttr = &syscall.SysProcAttr{Setpgid: true, Pdeathsig: syscall.SIGKILL} // no orphans if the driver is killed
	var stderr bytes.Buffer
	cmd.Stderr = &stderr
	cmd.Stdout = &stderr
	t0 := time.Now()
	runtime.LockOSThread() // Pdeathsig is tied to the spawning thread: keep it for the child's lifetime
	err := cmd.Run()
	runtime.UnlockOSThread()
	wall := time.Since(t0)
	res := &spec.RunResult{Property: s.Property, Seed: s.Seed}
	if rb, rerr := os.ReadFile(op); rerr == nil {
		if jerr := json.Unmarshal(rb, res); jerr != nil {
			res.Harness = append(res.Harness, "bad result json: "+jerr.Error())
		}
		res.WallMs = wall.Milliseconds()
		if os.Getenv("VSIM_MIERU_LOG") != "" {
			os.Stderr.Write(stderr.Bytes())
		}
		if strings.Contains(stderr.String(), "WARNING: DATA RACE") {
			res.Crash = raceSignature(stderr.String())
			res.Info = merge(res.Info, map[string]string{"stderr": tail(stderr.String(), 6000)})
		}
		return res
	}
	res.WallMs = wall.Milliseconds()
	if ctx.Err() != nil {
		res.Harness = append(res.Harness, fmt.Sprintf("wall-timeout after %v", wallLimit))
		res.Crash = ""
		res.Info = map[string]string{"stderr": tail(stderr.String(), 4000)}
		return res
	}
	if err != nil {
		res.Crash = crashSignature(stderr.String())
		res.Info = map[string]string{"stderr": tail(stderr.String(), 6000), "exit": err.Error()}
		if strings.HasPrefix(res.Crash, "HARNESS ") {
			// the harness itself panicked: a harness problem (exit 2), never a verdict
			res.Harness = append(res.Harness, res.Crash)
			res.Crash = ""
		}
		return res
	}
	res.Harness = append(res.Harness, "process exited 0 without writing a result")
	res.Info = map[string]string{"stderr": tail(stderr.String(), 4000)}
	return res
}

func tail(s string, n int) string {
	if len(s) > n {
		return s[len(s)-n:]
	}
	return s
}

// crashSignature extracts a stable one-line cause from a Go crash dump.
func crashSignature(stderr string) string {
	lines := strings.Split(stderr, "\n")
	for i, l := range lines {
		if strings.HasPrefix(l, "panic: ") || strings.HasPrefix(l, "fatal error: ") {
			sig := normalisePanic(l)
			// frames of the panicking goroutine: up to the next blank line after "goroutine N [running"
			started := false
			for _, f := range lines[i:] {
				if strings.HasPrefix(f, "goroutine ") {
					if started {
						break
					}
					started = true
					continue
				}
				if !started {
					continue
				}
				f = strings.TrimSpace(f)
				if strings.HasPrefix(f, "verifsim/") {
					if k := strings.LastIndex(f, "("); k > 0 {
						f = f[:k]
					}
					return "HARNESS " + sig + " @ " + f
				}
				if strings.HasPrefix(f, "github.com/enfein/mieru/") {
					if k := strings.LastIndex(f, "("); k > 0 {
						f = f[:k]
					}
					return sig + " @ " + f
				}
			}
			return sig
		}
	}
	if strings.Contains(stderr, "DATA RACE") {
		return "DATA RACE"
	}
	return "process died: " + tail(strings.TrimSpace(stderr), 300)
}

var (
	reQuoted = regexp.MustCompile(`"[^"]*"`)
	reDigits = regexp.MustCompile(`[0-9]+`)
	reBraces = regexp.MustCompile(`\{[^{}]*\}`)
)

// normalisePanic makes a panic message stable across runs: quoted strings,
// numbers and struct dumps are replaced by placeholders.
func normalisePanic(l string) string {
	for i := 0; i < 4; i++ {
		l = reBraces.ReplaceAllString(l, "{}")
	}
	l = reQuoted.ReplaceAllString(l, "S")
	l = reDigits.ReplaceAllString(l, "N")
	if len(l) > 160 {
		l = l[:160]
	}
	return l
}

// raceSignature names a data race by its first two mieru frames.
func raceSignature(stderr string) string {
	i := strings.Index(stderr, "WARNING: DATA RACE")
	lines := strings.Split(stderr[i:], "\n")
	var frames []string
	for _, l := range lines {
		l = strings.TrimSpace(l)
		if strings.HasPrefix(l, "github.com/enfein/mieru/") || strings.HasPrefix(l, "verifsim/") {
			if k := strings.LastIndex(l, "("); k > 0 {
				l = l[:k]
			}
			if len(frames) == 0 || frames[len(frames)-1] != l {
				frames = append(frames, l)
			}
			if len(frames) == 2 {
				break
			}
		}
	}
	return "DATA RACE @ " + strings.Join(frames, " / ")
}

package main

import (
	"fmt"
	"strings"
	"time"

	"verifsim/simnet"
	"verifsim/spec"
)

var socksComponents = func() map[string]string {
	m := map[string]string{}
	for k, v := range realComponents {
		m[k] = v
	}
	m["pkg/socks5, pkg/egress, apis/common (PacketOverStreamTunnel, UDPAssociateWrapper), apis/model"] = "real code; pkg/socks5 is built with its import \"net\" replaced by verifsim/vnet (build-time overlay generated from the current /repo files)"
	m["operating system network of the proxy server (dial, UDP sockets, name resolution)"] = "stub: verifsim/vnet + sim/vhost.go, interpreting addresses as an OS would (empty host and 0.0.0.0/:: reach the local machine; names resolve case-insensitively)"
	m["destinations, egress SOCKS5 proxy"] = "stub: echo servers on simnet at public, loopback and private addresses"
	return m
}()

func authBase(seed uint64, creds [][2]string, serverSide bool, profile string) *spec.RunSpec {
	s := &spec.RunSpec{Property: "C11", Scenario: "socks", Seed: seed, VirtualCapS: 36000, Profile: profile}
	s.Server = spec.Server{IP: "10.0.0.1", Users: []spec.User{{Name: "u", Password: "p"}}}
	s.Net = spec.Net{LatencyUs: 200}
	s.Socks = &spec.SocksSpec{Mode: "auth", Auth: &spec.AuthSpec{Creds: creds, ServerSide: serverSide}}
	return s
}

var credConfigs = [][][2]string{
	nil,
	{{"alice", "wonderland"}},
	{{"alice", "wonderland"}, {"bob", ""}, {strings.Repeat("u", 255), strings.Repeat("p", 255)}},
	{{"alice", "wonderland"}, {"bob", "builder"}, {"carol", "wonderland2"}, {"dave", "d"}},
}

// subVariants: what the application answers when username/password is selected.
func subVariants(creds [][2]string) []spec.AuthCase {
	u, p := "alice", "wonderland"
	if len(creds) > 0 {
		u, p = creds[0][0], creds[0][1]
	}
	vs := []spec.AuthCase{
		{SubVer: 1, User: u, Pass: p},                                               // matching (when configured)
		{SubVer: 1, User: u + "x", Pass: p},                                         // wrong user
		{SubVer: 1, User: u, Pass: p + "x"},                                         // wrong password
		{SubVer: 1, User: "", Pass: ""},                                             // empty
		{SubVer: 1, User: strings.Repeat("A", 255), Pass: strings.Repeat("B", 255)}, // 255-byte
		{SubVer: 5, User: u, Pass: p},                                               // wrong sub-negotiation version
	}
	if len(creds) > 2 {
		vs = append(vs, spec.AuthCase{SubVer: 1, User: creds[2][0], Pass: creds[2][1]}, spec.AuthCase{SubVer: 1, User: creds[1][0], Pass: creds[1][1]})
	}
	// one configured user's name with another configured user's password
	for i := range creds {
		for j := range creds {
			if i != j && creds[i][1] != creds[j][1] {
				vs = append(vs, spec.AuthCase{SubVer: 1, User: creds[i][0], Pass: creds[j][1]})
			}
		}
	}
	// a configured password under an unknown name, a configured name with a prefix of its password
	for i := range creds {
		vs = append(vs, spec.AuthCase{SubVer: 1, User: "mallory", Pass: creds[i][1]})
		if len(creds[i][1]) > 1 {
			vs = append(vs, spec.AuthCase{SubVer: 1, User: creds[i][0], Pass: creds[i][1][:len(creds[i][1])-1]})
		}
	}
	return vs
}

func c11Enumerate(bin string, master uint64, tier string) ([]*spec.RunSpec, []string) {
	alphabet := []int{0x00, 0x01, 0x02, 0x80, 0xFF}
	maxLen := 3
	if tier == "thorough" {
		maxLen = 4
	}
	var lists [][]int
	var rec func(cur []int)
	rec = func(cur []int) {
		if len(cur) > 0 {
			lists = append(lists, append([]int(nil), cur...))
		}
		if len(cur) == maxLen {
			return
		}
		for _, a := range alphabet {
			rec(append(cur, a))
		}
	}
	rec(nil)
	var out []*spec.RunSpec
	k := 0
	for ci, creds := range credConfigs {
		for _, serverSide := range []bool{false, true} {
			vars := subVariants(creds)
			var cases []spec.AuthCase
			for li, l := range lists {
				has02 := false
				for _, m := range l {
					has02 = has02 || m == 2
				}
				nv := 1
				if has02 {
					nv = len(vars)
					if tier != "thorough" {
						nv = 3
					}
				}
				for v := 0; v < nv; v++ {
					c := vars[(v*(1+li))%len(vars)]
					if v == 0 {
						c = vars[0]
					}
					c.Methods = l
					cases = append(cases, c)
				}
			}
			for start := 0; start < len(cases); start += 400 {
				end := min(start+400, len(cases))
				s := authBase(simnet.H(master, "c11-enum", uint64(k)), creds, serverSide, fmt.Sprintf("c11-enum-creds%d-serverSide%v", ci, serverSide))
				s.Socks.Auth.Cases = cases[start:end]
				s.Net.ChunkMode = k % 2
				out = append(out, s)
				k++
			}
		}
	}
	return out, nil
}

func init() {
	register(&propDef{
		id: "C11", level: "fault_enumeration", quickRuns: 48, thoroughRuns: 1000, wallPerRun: 5 * time.Minute,
		rule:        "SOCKS5 negotiations against the real pkg/socks5 front end over a simulated connection, one fresh connection per case. Enumerated: every method list of length 1..3 (thorough: 1..4) over {0x00, 0x01, 0x02, 0x80, 0xFF} with order and duplicates x credential configuration {none, one pair, several pairs incl. an empty password and 255-byte values} x placement {client daemon, proxy server} x sub-negotiation {matching pair, wrong user, wrong password, empty, 255-byte, wrong version}. Random: method lists up to 255 entries, blind pipelining of greeting + credentials + request, truncation at every byte, stalls past the 10 s handshake timeout, 1..7-byte write chunks. Oracle per case: the request is served (client placement: ProxyDialer.DialContext reached; server placement: the proxy server dials the destination through vnet) only if a configured pair was presented in a well-formed sub-negotiation - or, with no credentials configured, only if no-authentication was offered; username/password is never selected without configured credentials; a valid presentation that is not cut, stalled or pipelined is served. Sub-negotiation variants include every cross pairing of configured names and passwords, a configured password under an unknown name and a password cut by one byte; a configuration with four pairs.",
		assumptions: []string{"the application follows the method the server selects (RFC 1928); a blind pipelining client is generated separately", "'served' is observed at the first action that only a served request causes"},
		components:  socksComponents,
		enumerate:   c11Enumerate,
		gen: func(master uint64, idx int, tier string) *spec.RunSpec {
			seed := runSeed(master, "C11", idx)
			r := simnet.NewRng(seed, "c11")
			creds := credConfigs[r.Intn(len(credConfigs))]
			s := authBase(seed, creds, r.Bool(0.4), "c11-random")
			s.Net.ChunkMode = r.Pick(0, 1, 2, 3)
			vars := subVariants(creds)
			n := 40 + r.Intn(80)
			for i := 0; i < n; i++ {
				c := vars[r.Intn(len(vars))]
				ln := r.Pick(1, 2, 3, 5, 17, 255)
				for j := 0; j < ln; j++ {
					c.Methods = append(c.Methods, r.Pick(0, 0, 2, 2, 1, 3, 0x80, 0xFF, r.Intn(256)))
				}
				if r.Bool(0.2) {
					c.Pipeline = true
				}
				if r.Bool(0.25) {
					c.CutAt = 1 + r.Intn(40)
				}
				if r.Bool(0.1) {
					c.StallUs = int64(r.Pick(1000000, 9000000, 11000000, 20000000))
				}
				if r.Bool(0.3) {
					c.Chunk = 1 + r.Intn(7)
				}
				s.Socks.Auth.Cases = append(s.Socks.Auth.Cases, c)
			}
			return s
		},
		extra: func(ev map[string]any, recs []*runRec) {
			n := 0
			for _, r := range recs {
				if r.spec.Socks != nil && r.spec.Socks.Auth != nil {
					n += len(r.spec.Socks.Auth.Cases)
				}
			}
			ev["negotiations"] = n
		},
	})
}

// ---------------------------------------------------------------------------
// C12 / C18

type destEnc struct {
	atype int
	host  string
	class string
}

// destEncodings: every encoding of loopback / private / unspecified / public destinations.
var destEncodings = []destEnc{
	{1, "127.0.0.1", "loopback"}, {1, "127.255.255.254", "loopback"}, {4, "::1", "loopback"}, {4, "::ffff:127.0.0.1", "loopback"},
	{1, "0.0.0.0", "loopback"}, {4, "::", "loopback"}, {3, "", "loopback"},
	{3, "localhost", "loopback"}, {3, "LocalHost", "loopback"}, {3, "LOCALHOST", "loopback"}, {3, "localhost4", "loopback"}, {3, "localhost6", "loopback"}, {3, "Ip6-Localhost", "loopback"}, {3, "localhost.localdomain", "loopback"},
	{1, "10.1.2.3", "private"}, {1, "10.255.255.254", "private"}, {1, "172.16.0.1", "private"}, {1, "172.31.255.255", "private"}, {1, "192.168.1.1", "private"}, {4, "fd00::1", "private"}, {4, "::ffff:10.1.2.3", "private"},
	{1, "93.184.216.34", "public"}, {4, "2001:db8::1", "public"}, {3, "public.example", "public"}, {3, "v6.example", "public"}, {1, "198.51.100.9", "public"}, {3, "a.b.rule.example", "public"},
	{1, "172.15.255.255", "public"}, {1, "172.32.0.1", "public"}, {1, "11.0.0.1", "public"}, {1, "126.255.255.255", "public"}, {1, "128.0.0.1", "public"},
}

func socksBase(prop string, seed uint64, r *simnet.Rng, tr string) *spec.RunSpec {
	s := &spec.RunSpec{Property: prop, Scenario: "socks", Seed: seed, VirtualCapS: 1800}
	s.StartOffsetUs = genStartOffset(r)
	users := []spec.User{
		{Name: "plain", Password: "pw-plain"},
		{Name: "loop", Password: "pw-loop", AllowLoopback: true},
		{Name: "priv", Password: "pw-priv", AllowPrivate: true},
		{Name: "both", Password: "pw-both", AllowLoopback: true, AllowPrivate: true},
	}
	s.Server = spec.Server{Users: users, IP: "10.0.0.1"}
	if tr == "tcp" {
		s.Server.TCPPort = 5600
	} else {
		s.Server.UDPPort = 6600
		s.Server.MTU = 1400
	}
	s.Net = spec.Net{LatencyUs: int64(r.Pick(200, 1000, 5000)), ChunkMode: r.Pick(0, 1, 1, 3)}
	s.Socks = &spec.SocksSpec{Mode: "server"}
	return s
}

func addClients(s *spec.RunSpec, r *simnet.Rng, tr string, users []int) {
	for i, u := range users {
		c := spec.Client{IP: fmt.Sprintf("10.0.1.%d", i+1), User: u, Transport: tr, Multiplex: r.Pick(0, 1, 3)}
		if tr == "udp" {
			c.MTU = 1400
		}
		s.Clients = append(s.Clients, c)
	}
}

func genRules(r *simnet.Rng) []spec.ERule {
	if r.Bool(0.4) {
		return nil
	}
	var rules []spec.ERule
	n := 1 + r.Intn(4)
	for i := 0; i < n; i++ {
		ru := spec.ERule{Action: []string{"PROXY", "DIRECT", "REJECT"}[r.Intn(3)]}
		switch r.Intn(5) {
		case 0:
			ru.IPRanges = []string{[]string{"93.184.216.0/24", "198.51.100.0/24", "2001:db8::/32", "0.0.0.0/0", "198.51.100.9/32"}[r.Intn(5)]}
		case 1:
			ru.Domains = []string{[]string{"example", "rule.example", "b.rule.example", "public.example", "v6.example"}[r.Intn(5)]}
		case 2:
			ru.IPRanges = []string{"*"}
		case 3:
			ru.Domains = []string{"*"}
		default:
			ru.IPRanges = []string{"198.51.100.0/24"}
			ru.Domains = []string{"rule.example"}
		}
		rules = append(rules, ru)
	}
	return rules
}

func init() {
	register(&propDef{
		id: "C12", level: "exploration", quickRuns: 96, thoroughRuns: 2000, wallPerRun: 5 * time.Minute,
		rule:        "The production server stack (protocol.Mux + socks5.Server with users, egress rules and a resolver, as pkg/appctl builds it) runs against the simulated OS network; real client muxes of users {no grant, allowLoopbackIP, allowPrivateIP, both} carry raw SOCKS5 CONNECT and UDP-ASSOCIATE requests whose destination is drawn from an enumerated table of encodings: IPv4, IPv6, IPv4-mapped IPv6, 0.0.0.0 and ::, zero-length domain, boundary addresses of 127/8, 10/8, 172.16/12, 192.168/16, fc00::/7 and their public neighbours, well-known local names in several letter cases and with a trailing dot, IP literals sent as domain names; UDP associations additionally send datagrams whose own header names such addresses; egress rule lists (CIDR, suffix domains, '*', overlaps; PROXY/DIRECT/REJECT) are drawn per run. Observation: vnet records every dial target and datagram destination as the OS would interpret it. Oracle: for a user without the grant the reply is 0x02 and no connection/datagram reaches a loopback/private class target; granted users and public targets are served; the first matching egress rule decides the rest (PROXY requests reach the egress proxy).",
		assumptions: []string{"the OS semantics assumed by the stub: an empty host and the unspecified address connect to the local machine; the hosts table is case-insensitive and ignores a trailing dot", "egress-rule domain matching is exercised with lower-case names only"},
		components:  socksComponents,
		gen: func(master uint64, idx int, tier string) *spec.RunSpec {
			seed := runSeed(master, "C12", idx)
			r := simnet.NewRng(seed, "c12")
			tr := []string{"tcp", "tcp", "udp"}[r.Intn(3)]
			s := socksBase("C12", seed, r, tr)
			// every run has one client per kind of user, or only ungranted users (then nothing private/loopback may be touched at all)
			if r.Bool(0.5) {
				addClients(s, r, tr, []int{0})
			} else {
				addClients(s, r, tr, []int{0, 1, 2, 3})
			}
			s.Socks.Rules = genRules(r)
			n := 6 + r.Intn(14)
			for i := 0; i < n; i++ {
				e := destEncodings[r.Intn(len(destEncodings))]
				q := spec.SReq{Client: r.Intn(len(s.Clients)), AtUs: int64(i*20000 + r.Intn(10000)), Cmd: r.Pick(1, 1, 3), AType: e.atype, Host: e.host, Port: destTCPPort, Data: r.Pick(0, 1, 500, 5000)}
				if q.Cmd == 3 {
					q.Port = 0
					q.AType, q.Host = 1, "0.0.0.0" // the association request itself usually names no destination
					if r.Bool(0.4) {
						q.AType, q.Host = e.atype, e.host
					}
					m := 1 + r.Intn(5)
					for j := 0; j < m; j++ {
						de := destEncodings[r.Intn(len(destEncodings))]
						q.Dgrams = append(q.Dgrams, spec.SDgram{AType: de.atype, Host: de.host, Port: destUDPPort, Size: r.Pick(8, 20, 500, 1200), GapUs: 1000})
					}
				}
				s.Socks.Reqs = append(s.Socks.Reqs, q)
			}
			s.Profile = fmt.Sprintf("c12-%s-users%d-rules%d", tr, len(s.Clients), len(s.Socks.Rules))
			return s
		},
	})
	register(&propDef{
		id: "C18", level: "exploration", quickRuns: 96, thoroughRuns: 2000, wallPerRun: 5 * time.Minute,
		rule:        "UDP associations through the production server stack: the application wraps a proxy connection from a real client mux in PacketOverStreamTunnel and sends SOCKS5-UDP datagrams of sizes 0..65507 (boundary biased; contents PRF, all 0x00, all 0xff or alternating - i.e. full of marker bytes) to several destinations (IPv4, IPv6, domain-name headers) which echo them; the carrying stream is a mieru session over TCP with PRNG re-chunking (incl. 1-byte reads across the 3-byte frame header) or over lossy UDP; malformed frames (bad prefix/suffix marker, truncated body, short SOCKS header, fragment flag) and undersized reader buffers are injected. Oracle: per destination the received datagram sequence equals the sent one (count, order, bytes); each datagram arrives at the host its header names; each echo comes back with a header naming the replying host (or the name the client used) and the same bytes; after a malformed frame nothing but intact datagrams is ever delivered; a reader buffer smaller than the datagram yields an error, never truncated data.",
		assumptions: []string{"the egress UDP network of the simulation is loss-free and order-preserving, so any loss/reordering observed is the tunnel's", "the client side is apis/client-style usage (PacketOverStreamTunnel on the proxy connection); the client daemon's BidiCopyUDP path is exercised by the 'daemon' mode runs"},
		components:  socksComponents,
		gen: func(master uint64, idx int, tier string) *spec.RunSpec {
			seed := runSeed(master, "C18", idx)
			r := simnet.NewRng(seed, "c18")
			tr := []string{"tcp", "tcp", "udp"}[r.Intn(3)]
			s := socksBase("C18", seed, r, tr)
			addClients(s, r, tr, []int{3})
			if tr == "tcp" {
				s.Net.ChunkMode = r.Pick(1, 1, 2, 3)
				if s.Net.ChunkMode == 2 {
					s.Net.DribbleHead = 0
				}
			} else if r.Bool(0.5) {
				s.Net.DropRate = 0.08 * r.Float()
				s.Net.DupRate = 0.05 * r.Float()
				s.Net.MaxDropPerSeg, s.Net.MaxHandshakeDrops = 4, 2
			}
			nAssoc := 1 + r.Intn(3)
			pub := []destEnc{{1, "93.184.216.34", ""}, {4, "2001:db8::1", ""}, {3, "public.example", ""}, {3, "v6.example", ""}, {1, "198.51.100.9", ""}, {1, "10.1.2.3", ""}, {1, "127.0.0.1", ""}}
			big := tier == "thorough" || r.Bool(0.15)
			for a := 0; a < nAssoc; a++ {
				q := spec.SReq{Client: 0, AtUs: int64(a * 50000), Cmd: 3, AType: 1, Host: "0.0.0.0", Port: 0, Wrapper: r.Bool(0.4)}
				m := 1 + r.Intn(10)
				for j := 0; j < m; j++ {
					de := pub[r.Intn(len(pub))]
					for q.Wrapper && de.atype == 3 {
						de = pub[r.Intn(len(pub))] // the wrapper does not support domain-name headers
					}
					size := r.Pick(0, 1, 7, 8, 9, 100, 1000, 1400, 1472, 4000, 8+r.Intn(3000))
					if big && r.Bool(0.3) {
						size = r.Pick(32768, 65000, 65507, 65525, 65526)
					}
					if s.Net.ChunkMode == 2 && size > 3000 {
						size = 3000
					}
					d := spec.SDgram{AType: de.atype, Host: de.host, Port: destUDPPort, Size: size, Fill: r.Pick(0, 0, 1, 2, 3), GapUs: int64(r.Pick(1, 100, 5000))}
					if r.Bool(0.06) {
						d.Malformed = []string{"bad-prefix", "bad-suffix", "short-header", "frag"}[r.Intn(4)]
					} else if !q.Wrapper && r.Bool(0.3) {
						// the frame reaches the server in pieces: cut inside the 3-byte frame header,
						// inside the SOCKS header, in the body, before the trailing marker
						total := 4 + 10 + size
						for _, c := range []int{1, 2, 3, 4 + r.Intn(8), total / 2, total - 1} {
							if r.Bool(0.4) && c > 0 && c < total && (len(d.SplitAt) == 0 || c > d.SplitAt[len(d.SplitAt)-1]) {
								d.SplitAt = append(d.SplitAt, c)
							}
						}
					}
					q.Dgrams = append(q.Dgrams, d)
				}
				if r.Bool(0.08) {
					// a frame cut short can only be told from a complete one by what follows it, so it
					// is generated only as the last thing written on the association
					q.Dgrams = append(q.Dgrams, spec.SDgram{AType: 1, Host: "93.184.216.34", Port: destUDPPort, Size: r.Pick(100, 1400, 4000), Malformed: "truncated"})
				}
				s.Socks.Reqs = append(s.Socks.Reqs, q)
			}
			if r.Bool(0.15) {
				s.Socks.ReadBuf = r.Pick(16, 64, 600)
			}
			s.Profile = "c18-" + tr
			return s
		},
	})
}

// ports of the simulated destinations (must match sim/scen_socks.go)
const (
	destTCPPort = 80
	destUDPPort = 9999
)

package main

import (
	"fmt"
	"time"

	"verifsim/simnet"
	"verifsim/spec"
)

// attackBase builds a small genuine workload that the attackers run beside.
func attackBase(prop string, seed uint64, transport string, lightFaults bool) *spec.RunSpec {
	r := simnet.NewRng(seed, "attack-base")
	s := genStreamSpec(prop, seed, streamGenOpts{transport: transport, maxBytes: r.Pick(2000, 20000, 60000), maxSessions: 4, closeMode: "barrier", rich: r.Bool(0.4)})
	s.Scenario = "attack"
	s.VirtualCapS = 1500
	if len(s.Server.Users) < 2 {
		s.Server.Users = append(s.Server.Users, genUsers(r, 1)...)
		u := &s.Server.Users[len(s.Server.Users)-1]
		if len(u.Name) > 62 {
			u.Name = u.Name[:62]
		}
		u.Name += "-b"
	}
	if transport == "udp" {
		if lightFaults {
			s.Net.DropRate = 0.03 * r.Float()
			s.Net.DupRate = 0.02 * r.Float()
			s.Net.MaxDropPerSeg, s.Net.MaxHandshakeDrops = 4, 2
			s.Net.HealUs = s.StartOffsetUs + 20000000
		}
		total := int64(sumAll(s))
		s.Liveness = &spec.Liveness{BoundUs: 120000000 + 10*(total/1100/16+1)*2*(s.Net.LatencyUs+s.Net.JitterUs)}
	}
	return s
}

func attackerIP(i int) string { return fmt.Sprintf("10.9.%d.%d", i/250, 1+i%250) }

func c05Probes(r *simnet.Rng, s *spec.RunSpec, n int) {
	tr := s.Clients[0].Transport
	kinds := []string{"random", "random", "prefix", "bitflip", "trunc", "foreign-user", "wrong-password", "stolen-hint"}
	s.Attack = &spec.Attack{}
	for i := 0; i < n; i++ {
		p := spec.Probe{Kind: kinds[r.Intn(len(kinds))], Transport: tr, IP: attackerIP(i), AtUs: int64(r.Pick(0, 1000, 100000, 2000000, r.Intn(5000000))), Source: r.Intn(len(s.Clients)), Seed: r.U64(), Dribble: tr == "tcp" && r.Bool(0.3)}
		switch p.Kind {
		case "random":
			p.Len = r.Pick(0, 1, 23, 24, 47, 71, 72, 73, 88, 100, 1400, 3000, r.Intn(100), r.Intn(3000))
			if tr == "udp" && p.Len > 1500 {
				p.Len = 1500
			}
		case "prefix", "trunc":
			p.Arg = r.Pick(1, 24, 71, 72, 73, 88, r.Intn(400))
		case "bitflip":
			p.Arg = r.Intn(3000)
		}
		p.HoldUs = int64(r.Pick(500000, 2000000, 15000000, 130000000))
		if (p.Kind == "bitflip" || p.Kind == "trunc") && r.Bool(0.4) {
			p.AfterEnd, p.AfterEndDelayUs = true, int64(r.Pick(0, 1000000, 6000000, 11000000))
			if p.Kind == "bitflip" && r.Bool(0.5) {
				p.Arg = -(1 + r.Intn(64)) // in the tail: padding
			}
		}
		s.Attack.Probes = append(s.Attack.Probes, p)
	}
	if r.Bool(0.35) {
		// the server listens on a second port: copies (exact, or with a bit flipped in the
		// unauthenticated padding tail) of a handshake it accepted on one port go to the other
		sib := 7000 + r.Intn(1000)
		if tr == "tcp" {
			s.Server.ExtraTCPPorts = []int{sib}
		} else {
			s.Server.ExtraUDPPorts = []int{sib}
		}
		for i, k := 0, 2+r.Intn(3); i < k; i++ {
			p := spec.Probe{Kind: []string{"bitflip", "replay-first"}[r.Intn(2)], Transport: tr, IP: attackerIP(200 + i), AtUs: int64(r.Pick(1000, 100000, 2000000)), Source: r.Intn(len(s.Clients)), Seed: r.U64(), Port: sib, HoldUs: 2000000}
			if p.Kind == "bitflip" {
				p.Arg = -(1 + r.Intn(24))
			}
			if r.Bool(0.5) {
				p.AfterEnd, p.AfterEndDelayUs = true, int64(r.Pick(0, 1000000, 7000000))
			}
			s.Attack.Probes = append(s.Attack.Probes, p)
		}
	}
	if tr == "udp" && r.Bool(0.3) {
		// on-path attacker: swallows the first datagram of client 0 and sends proper prefixes of it
		s.Net.Rules = append(s.Net.Rules, spec.DgramRule{Client: 0, Dir: 0, Index: 0, Kind: "drop"})
		for i := range s.Attack.Probes {
			p := &s.Attack.Probes[i]
			if p.Kind == "prefix" || p.Kind == "trunc" {
				p.Intercepted, p.Source = true, 0
				p.CutTail = r.Pick(1, 2, 5, 16, 17, 1+r.Intn(60))
			}
		}
	}
}

// c05Enumerate: every prefix and every single-bit mutation of one genuine first
// segment, presented from fresh attacker addresses beside the genuine traffic.
func c05Enumerate(bin string, master uint64, tier string) ([]*spec.RunSpec, []string) {
	var out []*spec.RunSpec
	for _, tr := range []string{"tcp", "udp"} {
		seed := simnet.H(master, "c05-enum-"+tr)
		r := simnet.NewRng(seed, "c05-enum")
		s := &spec.RunSpec{Property: "C05", Scenario: "attack", Seed: seed, VirtualCapS: 1500, Profile: "c05-enum-" + tr}
		s.Server = spec.Server{Users: genUsers(r, 2), IP: "10.0.0.1", HintMandatory: r.Bool(0.5)}
		c := spec.Client{IP: "10.0.1.1", User: 0, Transport: tr, Multiplex: 1, Pattern: &spec.Pattern{PadEnd: pI32(40), PadMid: pI32(10), FragEnable: pB(false)}}
		if tr == "tcp" {
			s.Server.TCPPort = 5200
		} else {
			s.Server.UDPPort = 6200
			s.Server.MTU, c.MTU = 1400, 1400
		}
		for i := 0; i < 2; i++ {
			se := spec.Session{ID: i, StartUs: int64(i * 3000000), CloseMode: "barrier", Closer: "client", CloseDelayUs: 1000}
			se.C2S = spec.Script{Writes: []int{300, 2000}, GapsUs: []int64{1000}, ReadBufs: []int{32768}, ReadGapUs: 1}
			se.S2C = spec.Script{Writes: []int{1000}, GapsUs: []int64{1000}, ReadBufs: []int{32768}, ReadGapUs: 1}
			c.Sessions = append(c.Sessions, se)
		}
		s.Clients = []spec.Client{c}
		s.Net = spec.Net{LatencyUs: 2000}
		s.Attack = &spec.Attack{}
		stride := 1
		if tier != "thorough" {
			stride = 5
		}
		k := 0
		// first segment: nonce 24 + meta 48 + payload 15+16 + padding <= 40  => <= 143 bytes
		for n := 0; n <= 150; n++ {
			s.Attack.Probes = append(s.Attack.Probes, spec.Probe{Kind: "prefix", Transport: tr, IP: attackerIP(k), AtUs: 500000 + int64(k)*300, Source: 0, Arg: n, HoldUs: 3000000})
			k++
		}
		for b := int(master % uint64(stride)); b < 150*8; b += stride {
			s.Attack.Probes = append(s.Attack.Probes, spec.Probe{Kind: "bitflip", Transport: tr, IP: attackerIP(k), AtUs: 500000 + int64(k)*300, Source: 0, Arg: b, HoldUs: 3000000})
			k++
		}
		// After the copied session has ended and the server has forgotten it, the replay
		// record is all that ties a modified copy to the original: bit flips in the last
		// 12 bytes (unauthenticated padding) and every 16th bit elsewhere, one by one.
		for b := 1; b <= 96; b++ {
			s.Attack.Probes = append(s.Attack.Probes, spec.Probe{Kind: "bitflip", Transport: tr, IP: attackerIP(k), AtUs: 500000, Source: 0, Arg: -b, HoldUs: 3000000, AfterEnd: true, AfterEndDelayUs: 7000000 + int64(b)*300})
			k++
		}
		for b := int(master % 16); b < 150*8; b += 16 {
			s.Attack.Probes = append(s.Attack.Probes, spec.Probe{Kind: "bitflip", Transport: tr, IP: attackerIP(k), AtUs: 500000, Source: 0, Arg: b, HoldUs: 3000000, AfterEnd: true, AfterEndDelayUs: 7100000 + int64(b)*30})
			k++
		}
		out = append(out, s)
		// Truncations of a first segment that the attacker intercepted: the original never
		// reaches the server, so nothing but the segment's own checks can refuse the copy.
		// The server remembers a handshake as soon as its metadata decrypts, so a second
		// truncation of the same segment would be refused as a replay: every truncation
		// gets a victim of its own (one client each, first segment swallowed).
		victims := 36
		if tier == "thorough" {
			victims = 150
		}
		si := cloneSpec(s)
		si.Seed = simnet.H(master, "c05-enum-intercepted-"+tr)
		si.Profile = "c05-enum-intercepted-" + tr
		si.Attack = &spec.Attack{}
		si.Clients = nil
		for v := 0; v < victims; v++ {
			cv := c
			cv.IP = fmt.Sprintf("10.0.%d.%d", 1+v/200, 1+v%200)
			cv.Sessions = []spec.Session{c.Sessions[0]}
			cv.Sessions[0].StartUs = int64(v) * 1000
			cv.Sessions[0].C2S = spec.Script{Writes: []int{200}, GapsUs: []int64{1000}, ReadBufs: []int{32768}, ReadGapUs: 1}
			cv.Sessions[0].S2C = spec.Script{Writes: []int{100}, GapsUs: []int64{1000}, ReadBufs: []int{32768}, ReadGapUs: 1}
			si.Clients = append(si.Clients, cv)
			if tr == "udp" {
				si.Net.Rules = append(si.Net.Rules, spec.DgramRule{Client: v, Dir: 0, Index: 0, Kind: "drop"})
			} else {
				si.Net.Stream = append(si.Net.Stream, spec.StreamFault{Conn: v, Dir: 0, Kind: "rewrite", Off: 0, Del: 1 << 40})
			}
			si.Attack.Probes = append(si.Attack.Probes, spec.Probe{Kind: "prefix", Transport: tr, IP: attackerIP(v), AtUs: int64(victims+v)*1000 + 50000, Source: v, CutTail: 1 + v, HoldUs: 3000000, Intercepted: true})
		}
		out = append(out, si)
	}
	return out, nil
}

func init() {
	register(&propDef{
		id: "C05", level: "fault_enumeration", quickRuns: 96, thoroughRuns: 2000, wallPerRun: 5 * time.Minute,
		rule:        "Attacker actors without any registered credential run beside a genuine C01/C02 workload, each from its own source address. Enumerated part: every prefix (0..150 bytes) and every single-bit mutation (every 5th bit in the quick tier, every bit in the thorough tier) of a genuine first segment recorded in the same run from an already accepted connection, on TCP and on UDP. Random part: 3-12 probes per run drawn from random strings of boundary lengths, prefixes/truncations/bit flips, well-formed reference-encoded handshakes under an unregistered user, a registered name with a wrong password, and an unregistered key carrying the user hint of a real user; one write or dribbled; held open 0.5-130 virtual s. Oracle: bytes/datagrams from the server towards an attacker address = 0 for the whole run, Server.Accept never returns a connection from one, the server's session list never shows one, and the genuine workload's stream oracle still holds. On-path variant: the genuine first segment is swallowed by the fault plan (never reaches the server, so replay detection has not seen it) and the attacker sends it without its last 1..36 (thorough: 1..150) bytes from its own address - one victim client per truncation, because the server remembers a handshake as soon as its metadata decrypts; the same in 30 % of the random UDP runs.",
		assumptions: []string{"an attacker is identified by its source address (10.9.x.y)", "bit flips that land in unauthenticated padding make a byte-exact replay of an accepted handshake; C06's mechanism must then refuse it - it still counts here"},
		components:  realComponents,
		enumerate:   c05Enumerate,
		gen: func(master uint64, idx int, tier string) *spec.RunSpec {
			seed := runSeed(master, "C05", idx)
			r := simnet.NewRng(seed, "c05")
			tr := []string{"tcp", "udp"}[idx%2]
			s := attackBase("C05", seed, tr, r.Bool(0.5))
			c05Probes(r, s, 3+r.Intn(10))
			s.Profile = "c05-random-" + tr
			return s
		},
		extra: func(ev map[string]any, recs []*runRec) {
			n := 0
			for _, r := range recs {
				if r.spec.Attack != nil {
					n += len(r.spec.Attack.Probes)
				}
			}
			ev["attacker_probes"] = n
		},
	})
	register(&propDef{
		id: "C06", level: "exploration", quickRuns: 96, thoroughRuns: 2000, wallPerRun: 5 * time.Minute,
		rule:        "Replayer actors own everything the tap recorded of genuine sessions in the same run and re-send it from their own source address: the whole client-to-server TCP stream, each prefix ending at a segment boundary, the first segment alone, recorded UDP datagrams (all, or the first) - at offsets 0 s to 5 min after the original, before or after the original session ended, concurrently with fresh genuine dials. The process-wide replay caches are rebased onto the virtual clock so that rotation by time happens in long runs. Oracle as C05: zero bytes back, no Accept, no session, genuine dials keep succeeding. (The cache-history half of C06 is the separate scenario 'replaycache'.) Cache histories: three per end-to-end run; half of them are directed (bursts of about `capacity` new entries placed just before / after a multiple of the interval or one interval after the previous burst, a short sleep across that instant, a few more new entries, then the recent ones again).",
		assumptions: []string{"a replay is byte-exact and arrives from a different source address", "key and timestamp validity: replays are sent within 5 virtual minutes"},
		components:  realComponents,
		gen: func(master uint64, idx int, tier string) *spec.RunSpec {
			seed := runSeed(master, "C06", idx)
			r := simnet.NewRng(seed, "c06")
			tr := []string{"tcp", "udp"}[idx%2]
			s := attackBase("C06", seed, tr, false)
			// spread genuine dials over minutes so that fresh dials are concurrent with replays
			for ci := range s.Clients {
				for si := range s.Clients[ci].Sessions {
					s.Clients[ci].Sessions[si].StartUs = int64(r.Pick(0, 1000, 5000000, 60000000, 130000000, r.Intn(200000000)))
				}
			}
			s.Attack = &spec.Attack{}
			n := 2 + r.Intn(8)
			for i := 0; i < n; i++ {
				p := spec.Probe{Transport: tr, IP: attackerIP(i), Source: r.Intn(len(s.Clients)), Seed: r.U64(), AfterEnd: r.Bool(0.4), Dribble: tr == "tcp" && r.Bool(0.2)}
				p.AtUs = int64(r.Pick(0, 10000, 1000000, 30000000, 61000000, 119000000, 121000000, 179000000, 181000000, 299000000, r.Intn(300000000)))
				if tr == "tcp" {
					p.Kind = []string{"replay-stream", "replay-prefix", "replay-first"}[r.Intn(3)]
					p.Arg = r.Intn(50)
				} else {
					p.Kind = []string{"replay-dgrams", "replay-first-dgram"}[r.Intn(2)]
					p.Count = r.Pick(0, 2, 5, 50)
				}
				p.HoldUs = int64(r.Pick(500000, 3000000, 70000000))
				s.Attack.Probes = append(s.Attack.Probes, p)
			}
			s.Profile = "c06-" + tr
			return s
		},
	})
	register(&propDef{
		id: "C10", level: "exploration", quickRuns: 128, thoroughRuns: 3000, wallPerRun: 5 * time.Minute,
		rule:        "A hostile peer holding the valid credential of registered user B emits reference-encoded segment sequences with arbitrary field values against the real server - every protocol type 0..255 incl. wrong-direction and undefined ones, session id 0 / random / its own / ids owned by user A (taken from the tap), arbitrary seq/ack/window/fragment/status/low-entropy fields, inconsistent length fields, payloads up to the limits - on TCP and UDP, in any order; together with the C05 unauthenticated corpus; while user A's genuine sessions run. Oracle: the worker process does not die (a Go panic/fatal is the violation, its first mieru frame the signature) and user A's stream oracle still holds.",
		assumptions: []string{"SOCKS5 / UDP-associate parser inputs are covered by the socks scenario (C11/C12/C18) crash observation and by the hostile-egress-proxy runs", "hostile servers against a real client are not yet simulated"},
		components:  realComponents,
		gen: func(master uint64, idx int, tier string) *spec.RunSpec {
			seed := runSeed(master, "C10", idx)
			r := simnet.NewRng(seed, "c10")
			tr := []string{"tcp", "udp"}[idx%2]
			if idx%5 == 4 {
				return c10EgressSpec(seed, r, tr)
			}
			s := attackBase("C10", seed, tr, false)
			// the victim is user 0; the attacker controls the last user
			for ci := range s.Clients {
				s.Clients[ci].User = 0
			}
			s.Attack = &spec.Attack{}
			n := 1 + r.Intn(3)
			for i := 0; i < n; i++ {
				s.Attack.Probes = append(s.Attack.Probes, spec.Probe{Kind: "hostile", Transport: tr, IP: attackerIP(i), AtUs: int64(r.Pick(0, 20000, 300000, 2000000)), User: len(s.Server.Users) - 1, Seed: r.U64(), Count: r.Pick(10, 40, 120)})
			}
			if r.Bool(0.5) {
				extra := &spec.RunSpec{Clients: s.Clients, Server: s.Server}
				_ = extra
				k := len(s.Attack.Probes)
				tmp := cloneSpec(s)
				c05Probes(r, tmp, 3)
				for i := range tmp.Attack.Probes {
					tmp.Attack.Probes[i].IP = attackerIP(100 + k + i)
					tmp.Attack.Probes[i].HoldUs = 500000
				}
				s.Attack.Probes = append(s.Attack.Probes, tmp.Attack.Probes...)
			}
			s.Server.Acceptors = r.Pick(1, 64, 64)
			s.Profile = fmt.Sprintf("c10-%s-acceptors%d", tr, s.Server.Acceptors)
			return s
		},
	})
}

// c10EgressSpec: the production server stack forwards every request to a SOCKS5 egress proxy that
// misbehaves: resets or closes its control connection before, at or after its reply, answers with
// garbage, short, malformed or error replies, or says nothing. CONNECT and UDP-ASSOCIATE requests
// (with datagrams) from two users; the proxy server must survive and keep serving.
func c10EgressSpec(seed uint64, r *simnet.Rng, tr string) *spec.RunSpec {
	s := socksBase("C10", seed, r, tr)
	addClients(s, r, tr, []int{3, 3})
	s.Socks.Rules = []spec.ERule{{IPRanges: []string{"*"}, Domains: []string{"*"}, Action: "PROXY"}}
	modes := []string{"", "rst-after-reply", "rst-after-reply", "fin-after-reply", "rst-before-reply", "garbage-reply", "short-reply", "bad-atyp-reply", "error-reply", "huge-domain-reply", "silent"}
	for i, n := 0, 2+r.Intn(5); i < n; i++ {
		s.Socks.Egress = append(s.Socks.Egress, spec.EgressBehaviour{Mode: modes[r.Intn(len(modes))], ArgUs: int64(r.Pick(1, 1000, 20000, 300000, 2000000))})
	}
	for i, n := 0, 4+r.Intn(8); i < n; i++ {
		q := spec.SReq{Client: r.Intn(len(s.Clients)), AtUs: int64(i*30000 + r.Intn(10000)), Cmd: r.Pick(1, 3, 3), AType: 1, Host: "93.184.216.34", Port: destTCPPort, Data: r.Pick(0, 1, 500, 5000)}
		if q.Cmd == 3 {
			q.Port, q.Host = 0, "0.0.0.0"
			for j, m := 0, 1+r.Intn(6); j < m; j++ {
				q.Dgrams = append(q.Dgrams, spec.SDgram{AType: 1, Host: "93.184.216.34", Port: destUDPPort, Size: r.Pick(8, 20, 500, 1200), GapUs: int64(r.Pick(1000, 50000, 400000))})
			}
		}
		s.Socks.Reqs = append(s.Socks.Reqs, q)
	}
	s.Profile = "c10-hostile-egress-proxy-" + tr
	return s
}

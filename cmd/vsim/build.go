package main

import (
	"fmt"
	"os"
	"os/exec"
	"path/filepath"
	"strings"
	"time"

	"verifsim/internal/overlay"
)

const goRoot = "/opt/veriftools/go1.26.8"

// repoRoot is /repo. VERIF_SCRATCH_REPO (never set by a registered command) lets a copy of
// /verif whose go.mod points elsewhere be tried against a scratch worktree carrying a
// seeded change while /repo itself is busy with a long run.
var repoRoot = func() string {
	if v := os.Getenv("VERIF_SCRATCH_REPO"); v != "" {
		return v
	}
	return "/repo"
}()

// verifRoot is /verif unless VERIF_ROOT points at a snapshot of it (vp run).
var verifRoot = func() string {
	if v := os.Getenv("VERIF_ROOT"); v != "" {
		return v
	}
	return "/verif"
}()

func buildDir() string { return filepath.Join(verifRoot, "build") }

func goEnv(extra ...string) []string {
	env := os.Environ()
	env = append(env, "GOFLAGS=-mod=mod", "GOPROXY=off", "GOSUMDB=off", "GOTOOLCHAIN=local", "GOROOT="+goRoot)
	return append(env, extra...)
}

// buildSim compiles the simulation test binary from /repo's current working
// tree with the guarded hooks on and the runtime/vnet overlay. Returns the
// path of the binary. Any failure here is a harness/build problem (exit 2).
func buildSim(race bool) (string, error) {
	ov, err := overlay.Generate(goRoot, repoRoot, filepath.Join(buildDir(), "overlay"), vnetImport())
	if err != nil {
		return "", err
	}
	// go.sum must know mieru's dependencies.
	if err := ensureGoSum(); err != nil {
		return "", err
	}
	out := filepath.Join(buildDir(), "sim.test")
	args := []string{"test", "-c", "-vet=off", "-tags", "verif", "-overlay", ov, "-o", out}
	if race {
		out = filepath.Join(buildDir(), "sim.race.test")
		args = []string{"test", "-c", "-race", "-vet=off", "-tags", "verif", "-overlay", ov, "-o", out}
	}
	args = append(args, "./sim")
	t0 := time.Now()
	cmd := exec.Command(filepath.Join(goRoot, "bin", "go"), args...)
	cmd.Dir = verifRoot
	cmd.Env = goEnv()
	b, err := cmd.CombinedOutput()
	if err != nil {
		return "", fmt.Errorf("build failed: %v\n%s", err, string(b))
	}
	if os.Getenv("VSIM_VERBOSE") != "" {
		fmt.Fprintf(os.Stderr, "built %s in %v\n", out, time.Since(t0).Round(time.Millisecond))
	}
	return out, nil
}

func vnetImport() string {
	if _, err := os.Stat(filepath.Join(verifRoot, "vnet", "vnet.go")); err == nil {
		return "verifsim/vnet"
	}
	return ""
}

func ensureGoSum() error {
	sum := filepath.Join(verifRoot, "go.sum")
	have, _ := os.ReadFile(sum)
	repoSum, err := os.ReadFile(filepath.Join(repoRoot, "go.sum"))
	if err != nil {
		return nil
	}
	missing := []string{}
	lines := map[string]bool{}
	for _, l := range strings.Split(string(have), "\n") {
		lines[l] = true
	}
	for _, l := range strings.Split(string(repoSum), "\n") {
		if l != "" && !lines[l] {
			missing = append(missing, l)
		}
	}
	if len(missing) == 0 {
		return nil
	}
	f, err := os.OpenFile(sum, os.O_APPEND|os.O_WRONLY|os.O_CREATE, 0o644)
	if err != nil {
		return err
	}
	defer f.Close()
	if len(have) > 0 && !strings.HasSuffix(string(have), "\n") {
		f.WriteString("\n")
	}
	_, err = f.WriteString(strings.Join(missing, "\n") + "\n")
	return err
}

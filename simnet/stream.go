package simnet

import (
	"io"
	"net"
	"os"
	"sync"
	"syscall"
	"time"
)

var errDeadline = os.ErrDeadlineExceeded

// deadline mirrors net.pipeDeadline: wait() returns a channel that is closed
// when the deadline has passed; set() may be called while a call is blocked.
type deadline struct {
	mu     *sync.Mutex
	timer  **time.Timer
	cancel *chan struct{}
}

func makeDeadline() deadline {
	ch := make(chan struct{})
	var t *time.Timer
	return deadline{mu: &sync.Mutex{}, timer: &t, cancel: &ch}
}

func (d deadline) set(t time.Time) {
	d.mu.Lock()
	defer d.mu.Unlock()
	if *d.timer != nil && !(*d.timer).Stop() {
		<-*d.cancel // wait for the timer callback to finish and close cancel
	}
	*d.timer = nil
	closed := isClosedChan(*d.cancel)
	if t.IsZero() {
		if closed {
			*d.cancel = make(chan struct{})
		}
		return
	}
	if dur := time.Until(t); dur > 0 {
		if closed {
			*d.cancel = make(chan struct{})
		}
		ch := *d.cancel
		*d.timer = time.AfterFunc(dur, func() { close(ch) })
		return
	}
	if !closed {
		close(*d.cancel)
	}
}

func (d deadline) wait() <-chan struct{} {
	d.mu.Lock()
	defer d.mu.Unlock()
	return *d.cancel
}

type chunk struct {
	data []byte
	at   time.Time
}

// half is one direction of a TCP-like connection.
type half struct {
	net  *Net
	info *ConnInfo
	dir  Dir
	pol  StreamPolicy

	mu          sync.Mutex
	q           []chunk
	buffered    int // bytes in q (post-rewrite)
	lastArrival time.Time
	woff        int64 // bytes accepted from the writer (pre-rewrite)
	roff        int64 // bytes handed to the reader
	nread       uint64
	finAt       time.Time // zero: no FIN queued
	fin         bool
	rst         bool
	readerGone  time.Time // reader closed its end; writes fail after this instant
	hasGone     bool
	rwIdx       int // next rewrite
	stIdx       int
	extraDelay  time.Duration
	blackhole   bool // bytes accepted but never delivered (dead link)
	readable    chan struct{}
	writable    chan struct{}
}

func newHalf(n *Net, info *ConnInfo, dir Dir, p StreamPolicy) *half {
	if p.RecvBuf <= 0 {
		p.RecvBuf = 256 << 10
	}
	SortRewrites(p.Rewrites)
	return &half{net: n, info: info, dir: dir, pol: p, readable: make(chan struct{}, 1), writable: make(chan struct{}, 1)}
}

// Conn is one end of a simulated TCP connection.
type Conn struct {
	net    *Net
	info   *ConnInfo
	client bool
	peer   *Conn
	rd, wr *half
	laddr  net.Addr
	raddr  net.Addr
	rdl    deadline
	wdl    deadline
	closed chan struct{}
	once   sync.Once
}

func (c *Conn) Info() *ConnInfo      { return c.info }
func (c *Conn) LocalAddr() net.Addr  { return c.laddr }
func (c *Conn) RemoteAddr() net.Addr { return c.raddr }

func (c *Conn) SetDeadline(t time.Time) error {
	c.rdl.set(t)
	c.wdl.set(t)
	return nil
}
func (c *Conn) SetReadDeadline(t time.Time) error  { c.rdl.set(t); return nil }
func (c *Conn) SetWriteDeadline(t time.Time) error { c.wdl.set(t); return nil }

func (c *Conn) opErr(op string, err error) error {
	return &net.OpError{Op: op, Net: "tcp", Source: c.laddr, Addr: c.raddr, Err: err}
}

func (c *Conn) Read(b []byte) (int, error) {
	h := c.rd
	for {
		select {
		case <-c.closed:
			return 0, c.opErr("read", net.ErrClosed)
		default:
		}
		if isClosedChan(c.rdl.wait()) {
			return 0, c.opErr("read", errDeadline)
		}
		if len(b) == 0 {
			return 0, nil
		}
		now := time.Now()
		h.mu.Lock()
		if h.rst {
			h.mu.Unlock()
			return 0, c.opErr("read", os.NewSyscallError("read", syscall.ECONNRESET))
		}
		avail := 0
		for _, ck := range h.q {
			if ck.at.After(now) || h.blackhole {
				break
			}
			avail += len(ck.data)
		}
		if avail > 0 {
			want := avail
			if want > len(b) {
				want = len(b)
			}
			n := h.chunkSize(want)
			copied := 0
			for copied < n {
				ck := &h.q[0]
				m := copy(b[copied:n], ck.data)
				copied += m
				if m == len(ck.data) {
					h.q[0] = chunk{}
					h.q = h.q[1:]
				} else {
					ck.data = ck.data[m:]
				}
			}
			h.buffered -= n
			h.roff += int64(n)
			h.nread++
			more := len(h.q) > 0 && !h.q[0].at.After(now)
			h.mu.Unlock()
			signal(h.writable)
			if more {
				signal(h.readable)
			}
			c.net.stat(func(s *Stats) { s.StreamReads++ })
			return n, nil
		}
		if h.fin && len(h.q) == 0 && !h.finAt.After(now) && !h.blackhole {
			h.mu.Unlock()
			return 0, io.EOF
		}
		h.mu.Unlock()
		select {
		case <-h.readable:
		case <-c.closed:
		case <-c.rdl.wait():
		}
	}
}

// chunkSize picks how many of the want available bytes this Read returns.
func (h *half) chunkSize(want int) int {
	if want <= 1 {
		return want
	}
	if h.roff < int64(h.pol.DribbleHead) {
		return 1
	}
	r := H(h.net.Seed, "chunk", uint64(h.info.ID), uint64(h.dir), h.nread)
	switch h.pol.ChunkMode {
	case 0:
		return want
	case 2:
		return 1
	case 3:
		return 1 + Intn(r, min(want, 16))
	default:
		switch r % 10 {
		case 0, 1, 2:
			return 1 + Intn(r>>8, min(want, 8))
		case 3, 4, 5:
			return 1 + Intn(r>>8, min(want, 128))
		case 6, 7:
			return 1 + Intn(r>>8, want)
		default:
			return want
		}
	}
}

func (c *Conn) Write(b []byte) (int, error) {
	h := c.wr
	total := 0
	for {
		select {
		case <-c.closed:
			return total, c.opErr("write", net.ErrClosed)
		default:
		}
		if isClosedChan(c.wdl.wait()) {
			return total, c.opErr("write", errDeadline)
		}
		now := time.Now()
		h.mu.Lock()
		if h.rst {
			h.mu.Unlock()
			return total, c.opErr("write", os.NewSyscallError("write", syscall.ECONNRESET))
		}
		if h.hasGone && !h.readerGone.After(now) {
			h.mu.Unlock()
			return total, c.opErr("write", os.NewSyscallError("write", syscall.EPIPE))
		}
		if h.fin {
			h.mu.Unlock()
			return total, c.opErr("write", os.NewSyscallError("write", syscall.EPIPE))
		}
		if len(b) == 0 {
			h.mu.Unlock()
			return total, nil
		}
		space := h.pol.RecvBuf - h.buffered
		if space > 0 {
			n := len(b)
			if n > space {
				n = space
			}
			cutNow := false
			if h.pol.CutAt >= 0 && h.woff+int64(n) >= h.pol.CutAt {
				n = int(h.pol.CutAt - h.woff)
				cutNow = true
			}
			if n > 0 {
				h.accept(b[:n], now)
			}
			h.mu.Unlock()
			total += n
			b = b[n:]
			if cutNow {
				c.cut(h.pol.CutRST, "policy")
				if len(b) == 0 {
					return total, nil
				}
				continue
			}
			if len(b) == 0 {
				return total, nil
			}
			continue
		}
		h.mu.Unlock()
		c.net.stat(func(s *Stats) { s.BackPressureWait++ })
		select {
		case <-h.writable:
		case <-c.closed:
		case <-c.wdl.wait():
		}
	}
}

// accept takes bytes from the writer: taps them, applies rewrites, stamps the
// arrival time and queues them. Caller holds h.mu.
func (h *half) accept(b []byte, now time.Time) {
	n := h.net
	off := h.woff
	h.woff += int64(len(b))
	n.mu.Lock()
	n.stats.StreamBytes += int64(len(b))
	n.mu.Unlock()
	n.Logf("tcp #%d %s off=%d len=%d h=%08x", h.info.ID, h.dir, off, len(b), contentHash(b))
	if n.tap != nil {
		n.tap.StreamBytes(h.info, h.dir, off, b)
	}
	// stalls
	for h.stIdx < len(h.pol.Stalls) && h.pol.Stalls[h.stIdx].AtOff < h.woff {
		h.extraDelay += h.pol.Stalls[h.stIdx].D
		h.stIdx++
		n.stat(func(s *Stats) { s.Stalls++ })
	}
	out := h.rewrite(b, off)
	if len(out) == 0 {
		return
	}
	lat := h.pol.Latency
	if h.pol.Jitter > 0 {
		lat += time.Duration(H(n.Seed, "tcpjit", uint64(h.info.ID), uint64(h.dir), uint64(off)) % uint64(h.pol.Jitter))
	}
	at := now.Add(lat + h.extraDelay)
	h.extraDelay = 0
	if at.Before(h.lastArrival) {
		at = h.lastArrival
	}
	if h.pol.BytesPerSec > 0 {
		start := at
		if h.lastArrival.After(start) {
			start = h.lastArrival
		}
		at = start.Add(time.Duration(int64(len(out)) * int64(time.Second) / h.pol.BytesPerSec))
	}
	h.lastArrival = at
	h.q = append(h.q, chunk{data: out, at: at})
	h.buffered += len(out)
	d := at.Sub(now)
	if d <= 0 {
		signal(h.readable)
	} else {
		time.AfterFunc(d, func() { signal(h.readable) })
	}
}

// rewrite applies the policy's in-path rewrites to b, which starts at sender
// offset off. Returns a fresh slice.
func (h *half) rewrite(b []byte, off int64) []byte {
	out := make([]byte, 0, len(b))
	pos := off
	end := off + int64(len(b))
	for pos < end {
		if h.rwIdx >= len(h.pol.Rewrites) {
			out = append(out, b[pos-off:]...)
			break
		}
		rw := h.pol.Rewrites[h.rwIdx]
		if end <= rw.Off {
			out = append(out, b[pos-off:]...)
			break
		}
		if pos < rw.Off {
			out = append(out, b[pos-off:rw.Off-off]...)
			pos = rw.Off
		}
		if pos == rw.Off && rw.Xor != 0 {
			out = append(out, b[pos-off]^rw.Xor)
			h.net.stat(func(s *Stats) { s.Rewrites++ })
			pos++
			h.rwIdx++
			continue
		}
		if pos == rw.Off {
			out = append(out, rw.Ins...)
			h.net.stat(func(s *Stats) { s.Rewrites++ })
		}
		delEnd := rw.Off + rw.Del
		if end < delEnd {
			pos = end
			// keep this rewrite active: the rest of the deletion applies to later writes
			h.pol.Rewrites[h.rwIdx].Ins = nil
			h.pol.Rewrites[h.rwIdx].Del = delEnd - end
			h.pol.Rewrites[h.rwIdx].Off = end
			break
		}
		pos = delEnd
		h.rwIdx++
	}
	return out
}

// Close closes this end: the peer reads EOF after the data in flight (FIN),
// and the peer's later writes fail.
func (c *Conn) Close() error {
	c.once.Do(func() {
		close(c.closed)
		now := time.Now()
		w := c.wr
		w.mu.Lock()
		if !w.fin && !w.rst {
			w.fin = true
			at := now.Add(w.pol.Latency)
			if at.Before(w.lastArrival) {
				at = w.lastArrival
			}
			w.finAt = at
			d := at.Sub(now)
			time.AfterFunc(d, func() { signal(w.readable) })
		}
		w.mu.Unlock()
		r := c.rd
		r.mu.Lock()
		r.hasGone = true
		r.readerGone = now.Add(r.pol.Latency)
		r.mu.Unlock()
		signal(r.writable)
		c.net.Logf("tcp #%d close client=%v", c.info.ID, c.client)
		if c.net.tap != nil {
			dir := S2C
			if c.client {
				dir = C2S
			}
			c.net.tap.StreamEnd(c.info, dir, "fin")
		}
	})
	return nil
}

// cut ends the connection from inside the network.
func (c *Conn) cut(rst bool, why string) {
	n := c.net
	if rst {
		for _, h := range []*half{c.rd, c.wr} {
			h.mu.Lock()
			h.rst = true
			h.q = nil
			h.buffered = 0
			h.mu.Unlock()
			signal(h.readable)
			signal(h.writable)
		}
		n.stat(func(s *Stats) { s.Resets++ })
	} else {
		now := time.Now()
		for _, h := range []*half{c.rd, c.wr} {
			h.mu.Lock()
			if !h.fin {
				h.fin = true
				at := now.Add(h.pol.Latency)
				if at.Before(h.lastArrival) {
					at = h.lastArrival
				}
				h.finAt = at
				hh := h
				time.AfterFunc(at.Sub(now), func() { signal(hh.readable) })
			}
			h.mu.Unlock()
			signal(h.writable)
		}
		n.stat(func(s *Stats) { s.Cuts++ })
	}
	n.Logf("tcp #%d cut rst=%v why=%s", c.info.ID, rst, why)
	if n.tap != nil {
		kind := "cut-fin"
		if rst {
			kind = "cut-rst"
		}
		n.tap.StreamEnd(c.info, C2S, kind)
		n.tap.StreamEnd(c.info, S2C, kind)
	}
}

// Reset aborts the connection now (both directions, pending data discarded).
func (c *Conn) Reset() { c.cut(true, "injected") }

// CutFIN ends both directions cleanly now.
func (c *Conn) CutFIN() { c.cut(false, "injected") }

// Blackhole stops delivery in both directions without telling either end
// (dead link). Writes keep being accepted until the buffer fills.
func (c *Conn) Blackhole() {
	for _, h := range []*half{c.rd, c.wr} {
		h.mu.Lock()
		h.blackhole = true
		h.mu.Unlock()
	}
	c.net.stat(func(s *Stats) { s.Stalls++ })
	c.net.Logf("tcp #%d blackhole", c.info.ID)
}

// StallFor delays everything not yet delivered in direction dir by d.
func (c *Conn) StallFor(dir Dir, d time.Duration) {
	h := c.wr
	if (dir == C2S) != c.client {
		h = c.rd
	}
	h.mu.Lock()
	for i := range h.q {
		h.q[i].at = h.q[i].at.Add(d)
	}
	if !h.lastArrival.IsZero() {
		h.lastArrival = h.lastArrival.Add(d)
	}
	h.extraDelay += d
	if len(h.q) > 0 {
		hh := h
		time.AfterFunc(time.Until(h.q[0].at), func() { signal(hh.readable) })
	}
	h.mu.Unlock()
	c.net.stat(func(s *Stats) { s.Stalls++ })
	c.net.Logf("tcp #%d stall %s %v", c.info.ID, dir, d)
}

// Unread reports bytes accepted from the writer of dir but not yet read.
func (c *Conn) Unread(dir Dir) int {
	h := c.wr
	if (dir == C2S) != c.client {
		h = c.rd
	}
	h.mu.Lock()
	defer h.mu.Unlock()
	return h.buffered
}

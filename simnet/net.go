// Package simnet is the in-memory network every simulated mieru node talks
// through. It is reached only via mieru's own seams (apicommon.Dialer,
// PacketDialer, StreamListenerFactory, PacketListenerFactory) and runs inside a
// testing/synctest bubble, so all of its timers are virtual.
//
// It owns: delivery latency/jitter/bandwidth, TCP re-chunking and back-pressure,
// stream cuts (FIN/RST), stalls and in-path rewrites, and per-datagram fates
// (drop / duplicate / delay / corrupt / path-MTU). Every event is reported to a
// Tap and folded into an event-log hash used by the determinism self-test.
package simnet

import (
	"context"
	"fmt"
	"hash/fnv"
	"net"
	"sort"
	"strconv"
	"sync"
	"time"
)

type Dir int

const (
	C2S Dir = 0
	S2C Dir = 1
)

func (d Dir) String() string {
	if d == C2S {
		return "c2s"
	}
	return "s2c"
}

// Tap observes everything that crosses the network. Callbacks run synchronously
// on the goroutine that performed the network operation and must not block.
type Tap interface {
	StreamOpen(c *ConnInfo)
	// StreamBytes: b was accepted by the network from a Write at sender offset
	// off (before any in-path rewrite).
	StreamBytes(c *ConnInfo, dir Dir, off int64, b []byte)
	StreamEnd(c *ConnInfo, dir Dir, kind string)
	DatagramSent(d *Datagram)
	DatagramDelivered(d *Datagram)
}

type ConnInfo struct {
	ID         int
	ClientAddr string
	ServerAddr string // address the client dialled
	OpenedAt   time.Duration
}

// Datagram describes one datagram offered to the network.
type Datagram struct {
	ID     int
	Flow   string // client socket address
	Dir    Dir
	Index  int // index within (Flow, Dir), counting every WriteTo
	Src    string
	Dst    string
	Data   []byte
	SentAt time.Duration
	Copy   int // 0 for the original, 1.. for duplicates
	Fate   Fate
}

// Fate of one datagram.
type Fate struct {
	Drop    bool
	Delays  []time.Duration // one entry per delivered copy; empty ⇒ one copy after base latency
	Corrupt *Rewrite        // applied to every delivered copy
	Why     string          // which rule produced it (for the fault log)
}

// Rewrite replaces Del bytes at Off by Ins.
type Rewrite struct {
	Off int64  `json:"off"`
	Del int64  `json:"del"`
	Ins []byte `json:"ins,omitempty"`
	Xor byte   `json:"xor,omitempty"` // stream only: if non-zero, the byte at Off is xor-ed (Del/Ins ignored)
}

// StreamPolicy describes how one direction of one TCP-like connection behaves.
type StreamPolicy struct {
	Latency     time.Duration
	Jitter      time.Duration
	BytesPerSec int64
	RecvBuf     int
	ChunkMode   int // 0 whole, 1 mixed random, 2 one byte, 3 tiny (1..16)
	DribbleHead int // the first DribbleHead bytes are delivered one byte per Read regardless of ChunkMode
	Rewrites    []Rewrite
	CutAt       int64 // <0: none. After CutAt bytes were accepted in this direction the connection is cut.
	CutRST      bool
	Stalls      []Stall
}

type Stall struct {
	AtOff int64
	D     time.Duration
}

type Stats struct {
	StreamConns      int
	StreamBytes      int64
	StreamReads      int64
	Datagrams        int
	DatagramBytes    int64
	Dropped          int
	Duplicated       int
	Delayed          int // delivered later than base latency+jitter (reorder candidates)
	Reordered        int // delivered after a datagram that was sent later on the same flow/dir
	Corrupted        int
	MTUDropped       int
	InboxOverflow    int
	NoSocket         int
	Cuts             int
	Resets           int
	Stalls           int
	Rewrites         int
	BackPressureWait int
}

type Net struct {
	Seed  uint64
	Start time.Time

	mu         sync.Mutex
	listeners  map[string]*Listener
	psocks     map[string]*PacketConn
	ephemeral  map[string]int
	conns      []*Conn
	nextDgram  int
	flowIdx    map[string]int
	lastDeliv  map[string]int       // flow/dir -> highest Index delivered so far
	lastAt     map[string]time.Time // src>dst -> latest scheduled arrival of an unfaulted datagram
	tap        Tap
	stats      Stats
	logHash    uint64
	logLines   []string
	KeepLog    bool
	eventCount int64

	// BaseLatency/BaseJitter apply to datagrams without an explicit delay.
	BaseLatency time.Duration
	BaseJitter  time.Duration
	PathMTU     int
	// FateFn decides the fate of each datagram; nil ⇒ deliver.
	FateFn func(d *Datagram) Fate
	// PolicyFn gives the policy for each direction of a new stream conn.
	PolicyFn func(c *ConnInfo, dir Dir) StreamPolicy
}

func New(seed uint64) *Net {
	h := fnv.New64a()
	return &Net{
		Seed:        seed,
		Start:       time.Now(),
		listeners:   map[string]*Listener{},
		psocks:      map[string]*PacketConn{},
		ephemeral:   map[string]int{},
		flowIdx:     map[string]int{},
		lastDeliv:   map[string]int{},
		lastAt:      map[string]time.Time{},
		logHash:     h.Sum64(),
		BaseLatency: 5 * time.Millisecond,
	}
}

func (n *Net) SetTap(t Tap) { n.tap = t }

func (n *Net) Now() time.Duration { return time.Since(n.Start) }

func (n *Net) Stats() Stats {
	n.mu.Lock()
	defer n.mu.Unlock()
	return n.stats
}

func (n *Net) stat(f func(s *Stats)) {
	n.mu.Lock()
	f(&n.stats)
	n.mu.Unlock()
}

// Logf folds one event line into the event-log hash. It never draws from a
// PRNG and never reads a real clock.
func (n *Net) Logf(format string, a ...any) {
	line := fmt.Sprintf("%d ", n.Now().Microseconds()) + fmt.Sprintf(format, a...)
	n.mu.Lock()
	h := n.logHash
	for i := 0; i < len(line); i++ {
		h ^= uint64(line[i])
		h *= 1099511628211
	}
	h ^= '\n'
	h *= 1099511628211
	n.logHash = h
	n.eventCount++
	if n.KeepLog {
		n.logLines = append(n.logLines, line)
	}
	n.mu.Unlock()
}

func (n *Net) LogHash() (uint64, int64) {
	n.mu.Lock()
	defer n.mu.Unlock()
	return n.logHash, n.eventCount
}

func (n *Net) LogLines() []string {
	n.mu.Lock()
	defer n.mu.Unlock()
	return append([]string(nil), n.logLines...)
}

func contentHash(b []byte) uint32 {
	h := fnv.New32a()
	h.Write(b)
	return h.Sum32()
}

// ---------------------------------------------------------------------------
// Nodes

// Node is one host on the simulated network. It implements the four mieru
// seams.
type Node struct {
	net *Net
	IP  string
}

func (n *Net) Node(ip string) *Node { return &Node{net: n, IP: ip} }

func (nd *Node) ephemeralPort() int {
	nd.net.mu.Lock()
	defer nd.net.mu.Unlock()
	p := nd.net.ephemeral[nd.IP]
	if p == 0 {
		p = 40000
	}
	nd.net.ephemeral[nd.IP] = p + 1
	return p
}

func splitHostPort(addr string) (string, int, error) {
	h, p, err := net.SplitHostPort(addr)
	if err != nil {
		return "", 0, err
	}
	port, err := strconv.Atoi(p)
	if err != nil {
		return "", 0, err
	}
	return h, port, nil
}

func isWildcard(host string) bool {
	return host == "" || host == "0.0.0.0" || host == "::"
}

// Listen implements apicommon.StreamListenerFactory.
func (nd *Node) Listen(ctx context.Context, network, address string) (net.Listener, error) {
	host, port, err := splitHostPort(address)
	if err != nil {
		return nil, err
	}
	key := hp(nd.IP, port)
	_ = host
	l := &Listener{node: nd, port: port, key: key, ch: make(chan *Conn, 128), done: make(chan struct{}),
		addr: &net.TCPAddr{IP: net.ParseIP(hostOr(host, "0.0.0.0")), Port: port}}
	nd.net.mu.Lock()
	if _, dup := nd.net.listeners[key]; dup {
		nd.net.mu.Unlock()
		return nil, &net.OpError{Op: "listen", Net: network, Err: fmt.Errorf("address already in use")}
	}
	nd.net.listeners[key] = l
	nd.net.mu.Unlock()
	nd.net.Logf("listen tcp %s", key)
	return l, nil
}

func hp(host string, port int) string { return net.JoinHostPort(host, strconv.Itoa(port)) }

func hostOr(h, def string) string {
	if h == "" {
		return def
	}
	return h
}

type Listener struct {
	node *Node
	port int
	key  string
	addr net.Addr
	ch   chan *Conn
	done chan struct{}
	once sync.Once
}

func (l *Listener) Accept() (net.Conn, error) {
	select {
	case c := <-l.ch:
		return c, nil
	case <-l.done:
		return nil, &net.OpError{Op: "accept", Net: "tcp", Addr: l.addr, Err: net.ErrClosed}
	}
}

func (l *Listener) Close() error {
	l.once.Do(func() {
		close(l.done)
		l.node.net.mu.Lock()
		delete(l.node.net.listeners, l.key)
		l.node.net.mu.Unlock()
	})
	return nil
}

func (l *Listener) Addr() net.Addr { return l.addr }

// DialContext implements apicommon.Dialer.
func (nd *Node) DialContext(ctx context.Context, network, address string) (net.Conn, error) {
	host, port, err := splitHostPort(address)
	if err != nil {
		return nil, err
	}
	key := hp(host, port)
	n := nd.net
	n.mu.Lock()
	l := n.listeners[key]
	n.mu.Unlock()
	raddr := &net.TCPAddr{IP: net.ParseIP(host), Port: port}
	if l == nil {
		// connection refused after one latency
		time.Sleep(n.BaseLatency)
		return nil, &net.OpError{Op: "dial", Net: network, Addr: raddr, Err: fmt.Errorf("connect: connection refused")}
	}
	laddr := &net.TCPAddr{IP: net.ParseIP(nd.IP), Port: nd.ephemeralPort()}
	n.mu.Lock()
	info := &ConnInfo{ID: len(n.conns) / 2, ClientAddr: laddr.String(), ServerAddr: raddr.String(), OpenedAt: n.Now()}
	n.mu.Unlock()
	var pc2s, ps2c StreamPolicy
	if n.PolicyFn != nil {
		pc2s = n.PolicyFn(info, C2S)
		ps2c = n.PolicyFn(info, S2C)
	} else {
		pc2s = StreamPolicy{Latency: n.BaseLatency, CutAt: -1}
		ps2c = pc2s
	}
	c2s := newHalf(n, info, C2S, pc2s)
	s2c := newHalf(n, info, S2C, ps2c)
	cli := &Conn{net: n, info: info, client: true, rd: s2c, wr: c2s, laddr: laddr, raddr: raddr, closed: make(chan struct{})}
	srv := &Conn{net: n, info: info, client: false, rd: c2s, wr: s2c, laddr: &net.TCPAddr{IP: net.ParseIP(host), Port: port}, raddr: laddr, closed: make(chan struct{})}
	cli.peer, srv.peer = srv, cli
	cli.rdl, cli.wdl = makeDeadline(), makeDeadline()
	srv.rdl, srv.wdl = makeDeadline(), makeDeadline()
	n.mu.Lock()
	n.conns = append(n.conns, cli, srv)
	n.stats.StreamConns++
	n.mu.Unlock()
	n.Logf("dial tcp #%d %s->%s", info.ID, info.ClientAddr, info.ServerAddr)
	if n.tap != nil {
		n.tap.StreamOpen(info)
	}
	// connection establishment takes one round trip
	t := time.NewTimer(2 * pc2s.Latency)
	select {
	case <-t.C:
	case <-ctx.Done():
		t.Stop()
		cli.Close()
		return nil, &net.OpError{Op: "dial", Net: network, Addr: raddr, Err: ctx.Err()}
	}
	select {
	case l.ch <- srv:
	case <-l.done:
		return nil, &net.OpError{Op: "dial", Net: network, Addr: raddr, Err: fmt.Errorf("connect: connection refused")}
	}
	return cli, nil
}

// Conns returns the client ends of all stream connections in dial order.
func (n *Net) Conns() []*Conn {
	n.mu.Lock()
	defer n.mu.Unlock()
	var out []*Conn
	for i := 0; i < len(n.conns); i += 2 {
		out = append(out, n.conns[i])
	}
	return out
}

// ---------------------------------------------------------------------------
// Datagram sockets

// ListenPacket implements apicommon.PacketListenerFactory (3-argument form).
func (nd *Node) ListenPacket(ctx context.Context, network, address string) (net.PacketConn, error) {
	host, port, err := splitHostPort(address)
	if err != nil {
		return nil, err
	}
	if port == 0 {
		port = nd.ephemeralPort()
	}
	return nd.bindUDP(host, port, true)
}

// PacketDialer adapts a Node to apicommon.PacketDialer (4-argument form).
type PacketDialer struct{ Node *Node }

func (pd PacketDialer) ListenPacket(ctx context.Context, network, laddr, raddr string) (net.PacketConn, error) {
	port := 0
	if laddr != "" {
		_, p, err := splitHostPort(laddr)
		if err != nil {
			return nil, err
		}
		port = p
	}
	if port == 0 {
		port = pd.Node.ephemeralPort()
	}
	return pd.Node.bindUDP(pd.Node.IP, port, false)
}

func (nd *Node) bindUDP(host string, port int, server bool) (*PacketConn, error) {
	ip := nd.IP
	key := hp(ip, port)
	shown := host
	if isWildcard(host) {
		shown = hostOr(host, "0.0.0.0")
	}
	pc := &PacketConn{net: nd.net, node: nd, key: key, server: server,
		local:    &net.UDPAddr{IP: net.ParseIP(shown), Port: port},
		wildcard: isWildcard(host), closed: make(chan struct{}), readable: make(chan struct{}, 1),
		dialled: map[string]string{}}
	pc.rdl = makeDeadline()
	nd.net.mu.Lock()
	if _, dup := nd.net.psocks[key]; dup {
		nd.net.mu.Unlock()
		return nil, &net.OpError{Op: "listen", Net: "udp", Err: fmt.Errorf("address already in use")}
	}
	nd.net.psocks[key] = pc
	nd.net.mu.Unlock()
	nd.net.Logf("bind udp %s server=%v", key, server)
	return pc, nil
}

type inDgram struct {
	data []byte
	from *net.UDPAddr
}

type PacketConn struct {
	net      *Net
	node     *Node
	key      string
	server   bool
	local    *net.UDPAddr
	wildcard bool

	mu       sync.Mutex
	inbox    []inDgram
	dialled  map[string]string // remote addr -> the local address it used to reach us
	readable chan struct{}
	rdl      deadline
	closed   chan struct{}
	once     sync.Once
}

const inboxCap = 16384

func (pc *PacketConn) LocalAddr() net.Addr { return pc.local }

func (pc *PacketConn) Close() error {
	pc.once.Do(func() {
		close(pc.closed)
		pc.net.mu.Lock()
		delete(pc.net.psocks, pc.key)
		pc.net.mu.Unlock()
		pc.net.Logf("close udp %s", pc.key)
	})
	return nil
}

func (pc *PacketConn) SetDeadline(t time.Time) error      { pc.rdl.set(t); return nil }
func (pc *PacketConn) SetReadDeadline(t time.Time) error  { pc.rdl.set(t); return nil }
func (pc *PacketConn) SetWriteDeadline(t time.Time) error { return nil }

func (pc *PacketConn) ReadFrom(b []byte) (int, net.Addr, error) {
	for {
		select {
		case <-pc.closed:
			return 0, nil, &net.OpError{Op: "read", Net: "udp", Source: pc.local, Err: net.ErrClosed}
		default:
		}
		if isClosedChan(pc.rdl.wait()) {
			return 0, nil, &net.OpError{Op: "read", Net: "udp", Source: pc.local, Err: errDeadline}
		}
		pc.mu.Lock()
		if len(pc.inbox) > 0 {
			d := pc.inbox[0]
			pc.inbox[0] = inDgram{}
			pc.inbox = pc.inbox[1:]
			more := len(pc.inbox) > 0
			pc.mu.Unlock()
			if more {
				signal(pc.readable)
			}
			n := copy(b, d.data)
			return n, d.from, nil
		}
		pc.mu.Unlock()
		select {
		case <-pc.readable:
		case <-pc.closed:
		case <-pc.rdl.wait():
		}
	}
}

func (pc *PacketConn) WriteTo(b []byte, addr net.Addr) (int, error) {
	select {
	case <-pc.closed:
		return 0, &net.OpError{Op: "write", Net: "udp", Source: pc.local, Err: net.ErrClosed}
	default:
	}
	n := pc.net
	dst := addr.String()
	dhost, dport, err := splitHostPort(dst)
	if err != nil {
		return 0, &net.OpError{Op: "write", Net: "udp", Err: err}
	}
	// Source address as the destination will see it.
	src := pc.key
	pc.mu.Lock()
	if via, ok := pc.dialled[dst]; ok && pc.wildcard {
		src = via
	}
	pc.mu.Unlock()

	data := append([]byte(nil), b...)
	n.mu.Lock()
	target := n.psocks[hp(dhost, dport)]
	var flow string
	var dir Dir
	if pc.server {
		flow, dir = dst, S2C
	} else {
		flow, dir = pc.key, C2S
	}
	fk := flow + "/" + dir.String()
	idx := n.flowIdx[fk]
	n.flowIdx[fk] = idx + 1
	id := n.nextDgram
	n.nextDgram++
	n.stats.Datagrams++
	n.stats.DatagramBytes += int64(len(b))
	n.mu.Unlock()

	d := &Datagram{ID: id, Flow: flow, Dir: dir, Index: idx, Src: src, Dst: dst, Data: data, SentAt: n.Now()}
	if n.PathMTU > 0 && len(b) > n.PathMTU {
		d.Fate = Fate{Drop: true, Why: "path-mtu"}
		n.stat(func(s *Stats) { s.MTUDropped++ })
	} else if n.FateFn != nil {
		d.Fate = n.FateFn(d)
	}
	n.Logf("udp #%d %s[%d] %s->%s len=%d h=%08x drop=%v copies=%d", id, fk, idx, src, dst, len(b), contentHash(b), d.Fate.Drop, len(d.Fate.Delays))
	if n.tap != nil {
		n.tap.DatagramSent(d)
	}
	if target == nil {
		n.stat(func(s *Stats) { s.NoSocket++ })
		return len(b), nil
	}
	if d.Fate.Drop {
		if d.Fate.Why != "path-mtu" {
			n.stat(func(s *Stats) { s.Dropped++ })
		}
		return len(b), nil
	}
	delays := d.Fate.Delays
	base := n.BaseLatency
	if n.BaseJitter > 0 {
		base += time.Duration(H(n.Seed, "udpjit", uint64(id)) % uint64(n.BaseJitter))
	}
	if len(delays) == 0 {
		// a link does not reorder what it delays equally: keep arrivals on one
		// (source, destination) pair strictly increasing
		at := time.Now().Add(base)
		pair := src + ">" + dst
		n.mu.Lock()
		if last, ok := n.lastAt[pair]; ok && !at.After(last) {
			at = last.Add(time.Microsecond)
		}
		n.lastAt[pair] = at
		n.mu.Unlock()
		delays = []time.Duration{time.Until(at)}
	} else {
		delays = append([]time.Duration(nil), delays...)
		for i := range delays {
			if delays[i] < 0 {
				delays[i] = base
			}
		}
	}
	if len(delays) > 1 {
		n.stat(func(s *Stats) { s.Duplicated += len(delays) - 1 })
	}
	payload := data
	if d.Fate.Corrupt != nil {
		payload = ApplyRewrite(data, *d.Fate.Corrupt)
		n.stat(func(s *Stats) { s.Corrupted++ })
	}
	for ci, dl := range delays {
		if dl > n.BaseLatency+n.BaseJitter {
			n.stat(func(s *Stats) { s.Delayed++ })
		}
		cp := *d
		cp.Copy = ci
		cp.Data = payload
		dd := &cp
		time.AfterFunc(dl, func() { target.deliver(dd, src, pc) })
	}
	return len(b), nil
}

func (pc *PacketConn) deliver(d *Datagram, src string, from *PacketConn) {
	select {
	case <-pc.closed:
		return
	default:
	}
	n := pc.net
	shost, sport, _ := splitHostPort(src)
	fromAddr := &net.UDPAddr{IP: net.ParseIP(shost), Port: sport}
	pc.mu.Lock()
	if len(pc.inbox) >= inboxCap {
		pc.mu.Unlock()
		n.stat(func(s *Stats) { s.InboxOverflow++ })
		n.Logf("udp #%d overflow", d.ID)
		return
	}
	if pc.wildcard {
		pc.dialled[src] = d.Dst
	}
	pc.inbox = append(pc.inbox, inDgram{data: d.Data, from: fromAddr})
	pc.mu.Unlock()
	fk := d.Flow + "/" + d.Dir.String()
	n.mu.Lock()
	if last, ok := n.lastDeliv[fk]; ok && d.Index < last {
		n.stats.Reordered++
	} else {
		n.lastDeliv[fk] = d.Index
	}
	n.mu.Unlock()
	n.Logf("udp #%d.%d delivered to %s", d.ID, d.Copy, pc.key)
	if n.tap != nil {
		n.tap.DatagramDelivered(d)
	}
	signal(pc.readable)
}

// Inject delivers a datagram from an arbitrary (attacker) source address to dst
// after the base latency, bypassing FateFn. Returns false when nothing listens.
func (n *Net) Inject(src, dst string, data []byte) bool {
	dhost, dport, err := splitHostPort(dst)
	if err != nil {
		return false
	}
	n.mu.Lock()
	target := n.psocks[hp(dhost, dport)]
	id := n.nextDgram
	n.nextDgram++
	n.mu.Unlock()
	if target == nil {
		return false
	}
	d := &Datagram{ID: id, Flow: src, Dir: C2S, Index: -1, Src: src, Dst: dst, Data: append([]byte(nil), data...), SentAt: n.Now()}
	n.Logf("udp #%d inject %s->%s len=%d h=%08x", id, src, dst, len(data), contentHash(data))
	if n.tap != nil {
		n.tap.DatagramSent(d)
	}
	time.AfterFunc(n.BaseLatency, func() { target.deliver(d, src, nil) })
	return true
}

// ApplyRewrite applies one rewrite to a byte slice (offsets clipped).
func ApplyRewrite(b []byte, r Rewrite) []byte {
	off := r.Off
	if off < 0 {
		off = 0
	}
	if off > int64(len(b)) {
		off = int64(len(b))
	}
	end := off + r.Del
	if end > int64(len(b)) {
		end = int64(len(b))
	}
	out := make([]byte, 0, len(b)+len(r.Ins))
	out = append(out, b[:off]...)
	out = append(out, r.Ins...)
	out = append(out, b[end:]...)
	return out
}

// SortRewrites orders rewrites by offset.
func SortRewrites(rs []Rewrite) {
	sort.Slice(rs, func(i, j int) bool { return rs[i].Off < rs[j].Off })
}

func signal(ch chan struct{}) {
	select {
	case ch <- struct{}{}:
	default:
	}
}

func isClosedChan(ch <-chan struct{}) bool {
	select {
	case <-ch:
		return true
	default:
		return false
	}
}

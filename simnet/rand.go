package simnet

// Stateless seeded choices. Every harness choice is H(seed, purpose, indices…)
// rather than a draw from a shared stream, so adding a log line, an oracle or a
// new choice elsewhere never shifts the choices made here (DESIGN §2.2).

func mix(z uint64) uint64 {
	z += 0x9e3779b97f4a7c15
	z = (z ^ (z >> 30)) * 0xbf58476d1ce4e5b9
	z = (z ^ (z >> 27)) * 0x94d049bb133111eb
	return z ^ (z >> 31)
}

// H hashes a seed, a purpose tag and indices into 64 bits.
func H(seed uint64, tag string, idx ...uint64) uint64 {
	h := mix(seed ^ 0x5851f42d4c957f2d)
	for i := 0; i < len(tag); i++ {
		h = mix(h ^ uint64(tag[i]))
	}
	for _, v := range idx {
		h = mix(h ^ mix(v))
	}
	return h
}

// HS hashes a string into an index usable with H.
func HS(s string) uint64 {
	var h uint64 = 14695981039346656037
	for i := 0; i < len(s); i++ {
		h ^= uint64(s[i])
		h *= 1099511628211
	}
	return h
}

// Intn returns a value in [0,n) from a hash.
func Intn(h uint64, n int) int {
	if n <= 0 {
		return 0
	}
	return int(h % uint64(n))
}

// Float returns a value in [0,1) from a hash.
func Float(h uint64) float64 {
	return float64(h>>11) / float64(1<<53)
}

// Rng is a small sequential generator for places where a private stream is
// convenient (spec generation in the driver). Never shared across purposes.
type Rng struct{ s uint64 }

func NewRng(seed uint64, tag string) *Rng { return &Rng{s: H(seed, tag)} }
func (r *Rng) U64() uint64 {
	r.s += 0x9e3779b97f4a7c15
	return mix(r.s)
}
func (r *Rng) Intn(n int) int {
	if n <= 0 {
		return 0
	}
	return int(r.U64() % uint64(n))
}
func (r *Rng) Float() float64       { return Float(r.U64()) }
func (r *Rng) Bool(p float64) bool  { return r.Float() < p }
func (r *Rng) Range(lo, hi int) int { return lo + r.Intn(hi-lo+1) }
func (r *Rng) Pick(xs ...int) int   { return xs[r.Intn(len(xs))] }
